#!/usr/bin/env python3
"""Merge VERIF_COV shard files and list the executable gbasis lines no check executed.  usage: covreport.py <dir>"""
import ast, glob, json, os, sys
root = "/repo/gbasis"
seen = set()
for f in glob.glob(os.path.join(sys.argv[1], "*.json")):
    seen.update(tuple(x) for x in json.load(open(f)))
tot = miss_tot = 0
for dirp, _, files in os.walk(root):
    for fn in sorted(files):
        if not fn.endswith(".py") or fn == "libcint.py":
            continue
        path = os.path.join(dirp, fn); rel = os.path.relpath(path, root)
        tree = ast.parse(open(path).read())
        lines = set()
        for node in ast.walk(tree):
            if isinstance(node, ast.stmt) and not (isinstance(node, ast.Expr) and isinstance(getattr(node, "value", None), ast.Constant)):
                if not isinstance(node, (ast.FunctionDef, ast.ClassDef, ast.Import, ast.ImportFrom)):
                    lines.add(node.lineno)
        miss = sorted(l for l in lines if (rel, l) not in seen)
        tot += len(lines); miss_tot += len(miss)
        print(f"{rel:45s} {len(lines)-len(miss):4d}/{len(lines):4d}  missing: {miss[:40]}")
print(f"TOTAL {tot-miss_tot}/{tot} statements executed by the checks ({100*(tot-miss_tot)/tot:.1f}%)")
