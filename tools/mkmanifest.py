#!/usr/bin/env python3
"""Regenerate MANIFEST.json from the table below and validate it (python3-vt has jsonschema)."""
import json
import os
import sys

HERE = os.path.dirname(os.path.dirname(os.path.abspath(__file__)))

ENGINE = "vf (Hypothesis strategies / enumeration + independent oracles, ./check)"

# id -> (technique, level text, level note, design ref)
CHECKS = {
    "C01": (
        "property-based differential testing: Hypothesis-generated bases per enumerated (l_a,l_b) cell vs an "
        "independent closed-form oracle (binomial-expansion integrals, textbook norms, recurrence harmonics)",
        "Generated-input search against an independent reference: every ordered l-pair 0..5 is enumerated and "
        "random generalized/mixed bases are compared element-wise (1e-8 absolute) with closed-form integrals; "
        "diagonal, asymmetric-vs-union and raw shell blocks included. Sampling, not proof.",
        "Trusts vf/ref R1/R3/R4 (validated in vf.selftest against quadrature/mpmath and HORTON reference arrays); "
        "domain excludes contractions that cancel to <2% of their absolute self-overlap.",
        "DESIGN.md 6/C01",
    ),
    "C02": (
        "property-based differential testing: generated bases per enumerated (l_a,l_b) cell vs independent closed-form "
        "second-derivative integrals",
        "Generated-input search against an independent reference for all 36 l-pairs; element-wise bound "
        "1e-8*sqrt(T_aa T_bb) with oracle diagonals, symmetry and raw shell blocks. Sampling, not proof.",
        "Trusts vf/ref R1/R3/R4 (selftest: quadrature, mpmath, HORTON kinetic matrix).",
        "DESIGN.md 6/C02",
    ),
    "C07": (
        "property-based differential + metamorphic testing: generated bases/origins/order lists vs closed-form "
        "three-factor integrals; origin-shift law on the library's own lower moments",
        "Generated-input search: 25 l-pairs enumerated, order lists drawn from (0..4)^3 with repetition and arbitrary "
        "sequence (all 125 triples swept in a second sub-check), origins on/off/far; compared with an independent "
        "oracle at 1e-8 of the Cauchy-Schwarz scale, plus (0,0,0)=overlap and the binomial origin-shift law. "
        ' Shell blocks also judged element-wise at 1e-9 of their conditioning scale + 1e-13 of the natural scale.',
        "Trusts vf/ref R1/R3/R4; shift law judged at the rounding scale each lower library moment is entitled to. "
        ' ',
        "DESIGN.md 6/C07",
    ),
    "C08": (
        "property-based differential testing: generated bases vs independent integrals for every ordered pair; "
        "Hermiticity and exhaustive shell-reordering law per case",
        "Generated-input search: 25 l-pairs enumerated; upper, lower and diagonal shell blocks all compared with "
        "independently computed <a|-i grad|b>, <a|-i r x grad|b>; Hermiticity, zero real part, both block "
        "orientations, every ordering of the shells, optional transformation. "
        ' Shell blocks also judged element-wise at 1e-9 of their conditioning scale + 1e-13 of the natural scale; extreme-ratio pairs (tight exponents up to 300 x cap).',
        "Trusts vf/ref R1/R3/R4. Found and repaired D1 (fix commit 3c1ecf0). "
        " C08 states no tolerance: the conditioning criterion is the check's reading of 'exact' (unchanged library <= 0.013 of it under guided search).",
        "DESIGN.md 6/C08",
    ),
    "C05": (
        "property-based differential testing: generated bases/points/order triples vs coefficient-array differentiation "
        "oracle; back-end agreement and reject-or-equal rule",
        "Generated-input search: l up to 6, points on centres/planes/far, order triples from (0..4)^3 (all 125 swept per "
        "basis in a second sub-check), both back-ends, transformations; judged at 1e-9 of sum|terms|; direct back-end "
        "with order>=3 or unknown back-end names must raise or return the reference numbers. "
        ' Array forms of the points (layout, integer grid, float32 grid) and the class-level EvalDeriv entry points.',
        "Trusts vf/ref R5 (selftest vs mpmath.diff). Found and repaired D4 (direct back-end, order>=3). "
        ' ',
        "DESIGN.md 6/C05",
    ),
    "C06": (
        "property-based differential testing vs defining sums (full Leibniz expansion over R5 values); threshold rule "
        "probed with thresholds bracketing the generated most-negative value; output invariants",
        "Generated-input search: PSD and indefinite density matrices, rectangular transformations, both back-ends, "
        "orders up to (4,4,4); density, derivative of any order, gradient, Laplacian, Hessian, t+ and t_alpha compared "
        "with their definitions at 1e-9 of sum|terms|; raise/clip decided at 0.9|v|, |v|, 1.1|v| and default threshold.",
        "Trusts vf/ref R5 + dens. Found and repaired D8 (threshold applied to 2 t+).",
        "DESIGN.md 6/C06",
    ),
    "C15": (
        "property-based differential testing vs a mechanically derived operator algebra over D(p,q); finite-difference "
        "metamorphic cross-check of the library's own fields",
        "Generated-input search over bases, density matrices, points, transformations, with all nine special (alpha,beta) "
        "cells enumerated plus random reals: stress tensor from its documented definition, force derived as -div sigma, "
        "Hessian as Jacobian of the force, symmetric option; tolerance 1e-9 of sum|terms|; Richardson finite differences "
        "of the library's sigma and F at 1e-5; each function called once more on the same objects after the density matrix was halved and the points reversed in place.",
        "Trusts vf/ref R5 + dens algebra; Hessian sign convention = documented expanded formula (+dF_j/dr_k).",
        "DESIGN.md 6/C15",
    ),
    "C03": (
        "property-based differential testing: generated bases and point charges per enumerated (l_a,l_b) cell vs an "
        "independent McMurchie-Davidson oracle with a 40-digit arbiter",
        "Generated-input search: 36 l-pairs enumerated, charges on centres / midpoint / near / far with either sign; "
        "per-charge arrays compared at 1e-8*sqrt(|V_aa V_bb|), both block orientations (internal swap), and the "
        "nuclear-attraction matrix against the sum over charges. "
        ' Enumerated corners for equal l = 2..5 (diffuse / tight / middle / wide contractions, both orders, subclass Cartesian order), extreme-ratio pairs, charge dtypes (rejected or right).',
        "Trusts vf/ref R2 (selftest: Gaussian-transform quadrature, mpmath, HORTON). Float-oracle deviations are "
        "re-judged at 40 digits before they count. "
        ' Found and repaired D13, D15, D16 (fix commits 8a63be1, 938bcc9, 62a2837).',
        "DESIGN.md 6/C03",
    ),
    "C04": (
        "property-based differential testing: exhaustive l-quartet enumeration with generated geometry/exponents, "
        "whole-basis calls, and a fixed keyed list of ill-conditioned quartets, vs McMurchie-Davidson oracle",
        "Generated-input search: all 256 (l1..l4) in 0..3 at block level, whole-basis chemist/physicist/transform calls "
        "with mixed coordinate types, and 251 realistic tight-core/diffuse quartets in both orientations; judged at "
        "1e-6 of the oracle Schwarz scale with a 40-digit arbiter. "
        ' Enumerated corners (972 quartets), one-contraction-on-every-shell quartets, many-primitive quartets with a recursion work space up to 2^25.',
        "Trusts vf/ref R2. Random part limited to exponents 0.1-10 (0.2-5 with f); ill-conditioned region decided on "
        "the fixed list only. Absolute floor 1e-30 for pairs whose overlap distribution underflows. Found and repaired "
        "D11 (bra/ket orientation). "
        " Found and repaired D14 (fix commit 4ccd3a5; first seen by C11's thorough tier).",
        "DESIGN.md 6/C04",
    ),
    "C14": (
        "property-based differential testing: generated systems and thresholds bracketing generated point-nucleus "
        "distances vs Z/d sums and McMurchie-Davidson integrals; transformation pull-back law",
        "Generated-input search: nuclei of either sign and |Z| 0.1-100, points on nuclei, thresholds at 0, (1+-1e-6)d, "
        "between and beyond distances, square and rectangular transformations; value compared at 1e-8 of "
        "sum|Z/d| + sum|gamma| sqrt(V_aa V_bb); +-inf expected on a nucleus at threshold 0.",
        "Trusts vf/ref R2; points whose distance is within 1e-9 (relative) of the threshold are not judged. Found and "
        "repaired D2 (mask on Z/d) and D3 (rectangular transform rejected).",
        "DESIGN.md 6/C14",
    ),
    "C10": (
        "exhaustive enumeration (l = 0..10; all conventions for l <= 2) plus Hypothesis-drawn conventions, evaluation "
        "points and a single-edit mutation grammar for invalid conventions; oracle = harmonicity / orthonormality / "
        "phase predicates and an independent recurrence construction",
        "All 121 functions l <= 10 checked in every run as explicit polynomials (harmonic, orthonormal, cos/sin "
        "partnership with positive factor at the pole, documented order, equal to the recurrence oracle); every Cartesian "
        "order and label order x sign pattern for l <= 2 enumerated, l = 3..6 drawn; 19 kinds of invalid convention must raise. "
        ' Every sequence of 2l+1 signed labels enumerated for l <= 1 (l = 2: every 16th quick, all 100 000 thorough).',
        "Trusts the closed-form same-shell overlap and vf/ref R4. Found and repaired D10 (embedded '-' accepted). "
        ' ',
        "DESIGN.md 6/C10",
    ),
    "C18": (
        "property-based round-trip testing: generated model basis sets rendered under generated layouts (writer) and parsed "
        "back; builders called repeatedly on the same argument objects with deep snapshots",
        "Generated-input search: NWChem and Gaussian94 files with 0/1/2+ header lines, five number styles, SP shells, l up to "
        "k, up to 6 columns, comments/blank lines, optional END/****; parse must equal the model exactly (float of each "
        "emitted token, Gaussian94 generalized-shell merge rule). make_contractions/from_pyscf outputs equal the model and "
        "arguments are bit-identical after every repetition (str/list/tuple coord_types).",
        "Only layouts the formats define and BSE writes are generated (upper-case E/D); merge rule = exactly equal exponents. "
        "Found and repaired D5, D6 (header handling) and D7 (pop on caller's list).",
        "DESIGN.md 6/C18",
    ),
    "C09": (
        "metamorphic property-based testing over every public quantity (exhaustive coordinate-type assignments per generated "
        "basis, generated transformations and component conventions) plus exhaustive model-based testing of the four assembly "
        "classes on labelled dummy blocks",
        "Generated bases x every 2^n type assignment x 23 public quantities compared with the all-Cartesian result contracted "
        "with independent (R4) Cartesian->spherical matrices; transformation law incl. rectangular T; shell subclasses with "
        "permuted/signed conventions (all for l<=1, drawn above); assembly classes checked against a ground-truth tensor for "
        "all 1-2-shell shapes (3-shell sampled; four-index: all up to 3 shells), every construct_array_* path.",
        "Relations judged at 1e-9 (ERI 2e-6) of library-derived natural magnitudes. Trusts vf/ref R4. Conventions are also "
        "driven through gbasis.wrappers.from_iodata with a stand-in for the (not installable) iodata package.",
        "DESIGN.md 6/C09",
    ),
    "C11": (
        "metamorphic property-based testing: every permutation of the shells of generated bases for every public quantity; "
        "index-symmetry predicates; independent block orientations (2 per two-index kernel, 8 per ERI quartet)",
        "Generated bases with every shell ordering enumerated; results must change only by the block permutation; symmetric / "
        "Hermitian / eight-fold symmetry of results; shell blocks computed in every orientation independently, for generated "
        "quartets and for the fixed ill-conditioned list of C04. "
        ' Orientation sub-checks also over many-primitive quartets, one-contraction-on-every-shell quartets, diffuse/very tight pairs and the enumerated equal-l corners with wide contractions on either or both shells (point-charge and overlap kernels).',
        "ERI relations at 2e-6 of the Schwarz scale (library-derived), others 1e-9/1e-8 of natural magnitudes. "
        ' ',
        "DESIGN.md 6/C11",
    ),
    "C13": (
        "metamorphic property-based testing: generated equivalent rewritings of a shell (column split, all primitive "
        "permutations, primitive split, column scaling by +-1e-6..1e6) for every public quantity; block linearity of every kernel",
        "Every public quantity on the rewritten basis must equal the original (sign flip of exactly one column for negative "
        "factors, density matrix pulled back); un-normalised blocks of the nine kernel classes additive and homogeneous in the "
        "coefficient matrix of each argument.",
        "Domain excludes contractions cancelling below 2% (generator repairs by construction).",
        "DESIGN.md 6/C13",
    ),
    "C17": (
        "property-based testing with validity predicates (eigenvalue signs, element bounds, Schwarz inequality) on arrays "
        "returned for generated bases incl. nearly linearly dependent ones",
        "Generated bases (plain, exponent-scaled duplicates down to 1e-8, displaced duplicates down to 1e-6 bohr), positive "
        "charges anywhere: S PSD with |S_ab|<=1, T PSD, V(q>0) NSD, ERI pair matrix symmetric PSD with Schwarz bound, at the "
        "rounding allowances the property states. "
        ' Many-primitive shells (every count enumerated) and positive charges in unsigned / 32-bit dtypes (rejected or still negative semi-definite).',
        "Trusts numpy.linalg.eigvalsh. "
        ' ',
        "DESIGN.md 6/C17",
    ),
    "C20": (
        "property-based differential testing against the documented cutoff formula with shell pairs placed at (1+-1e-9) x cutoff; "
        "monotonicity and conservativeness predicates",
        "Generated bases/tolerances with a pair at the cutoff boundary: kept blocks bit-identical, removed blocks exactly zero, "
        "None = no screening, monotone in the tolerance, removed s-s elements below the analytic bound, bool rejected, "
        "tolerance forwarded through the transformation path. "
        " 'No tolerance means no screening' is asked of the wrapper, the class-level methods and the asymmetric overlap.",
        "Pairs within 1e-12 (relative) of the cutoff are not judged. "
        ' ',
        "DESIGN.md 6/C20",
    ),
    "C12": (
        "metamorphic property-based testing: all 48 signed axis permutations enumerated plus Hypothesis-drawn orthogonal "
        "matrices and translations, judged with independently built representation matrices (R6)",
        "Generated systems moved rigidly (centres, points, charges, moment origin, density matrix): function values, "
        "gradients, arbitrary-order derivatives and moments (signed permutations), S/T/V/ERI, momentum (vector), angular "
        "momentum (pseudo-vector with the t x p shift), dipole/second moments (tensors), all density-type fields as "
        "invariants / vectors / rank-2 tensors. "
        ' Original points in several array forms; density-type quantities also moved with a square non-symmetric transformation; screening-band tolerances.',
        "Trusts vf/ref R6 + R4 representation matrices; tolerances 1e-9 (ERI 2e-6) of natural magnitudes. "
        ' ',
        "DESIGN.md 6/C12",
    ),
    "C16": (
        "property-based differential testing of the two halves of the library against each other through a convergent "
        "trapezoid quadrature with per-case derived grid",
        "Generated bases of every type pattern (exponents 0.3-3) integrated on grids of up to ~1.4M points: products of "
        "evaluated functions vs overlap and moment matrices, gradients vs kinetic matrix, density vs tr(gamma S), t+ vs "
        "tr(gamma T), at 1e-9; gradients and t+ from deriv_type='direct' in every other case (grid planes through centre coordinates).",
        "Quadrature converges geometrically for polynomial x Gaussian integrands; only the exponent window 0.3-3 is covered.",
        "DESIGN.md 6/C16",
    ),
    "C19": (
        "stateful property-based testing: Hypothesis RuleBasedStateMachine over a shared object pool with byte-level "
        "snapshot, error-state and fresh-copy (history-independence) invariants after every step",
        "Generated call histories (valid calls of 31 public functions, 23 kinds of invalid call, parameter changes through "
        "the setters, renormalisation, numpy error-state changes): after every step all pooled arguments/shells are "
        "bit-identical to the model, numpy.geterr() is what the machine set, a valid call equals the same call on never "
        "shared copies, shells are unit-normalised as constructed and after assign_norm_cont(). "
        ' Includes a thresholded electrostatic potential on a 3003-point grid (results must not depend on the process history) and a rule that repeats a call on the same objects after changing the contents of one of them in place, no other call intervening; pooled density matrices symmetric only to round-off in half of the histories.',
        "Histories up to 20 (quick) / 30 (thorough) steps; only object kinds in the pool (incl. shells imported through "
        "from_iodata from two stand-in molecules with different conventions, and in-place changes of shell arrays). Failing histories are stored as "
        "plain step lists and replayed through the same interpreter without Hypothesis. D7 and D9 were found here / in C18. "
        ' ',
        "DESIGN.md 6/C19",
    ),
}

NOT_YET = "check not built yet in this revision (planned, see DESIGN.md section 6)"


def main():
    props = [json.loads(l)["id"] for l in open(os.path.join(HERE, "properties.jsonl"))]
    checks = []
    for pid in props:
        if pid not in CHECKS:
            continue
        tech, text, note, ref = CHECKS[pid]
        checks.append({
            "property_id": pid,
            "quick_cmd": f"./check {pid} quick",
            "thorough_cmd": f"./check {pid} thorough",
            "evidence_file": f"evidence/{pid}.json",
            "replay_cmd_template": f"./check {pid} --replay {{path}}",
            "engine": ENGINE,
            "level_claimed": {"category": "exploration", "text": text, "design_ref": ref},
            "level_note": note,
            "technique": tech,
        })
    man = {
        "version": 1,
        "setup_cmd": "./check --setup",
        "hooks": {
            "guard": "GBASIS_VERIF",
            "enable": "no source hooks: every property is observable at the public API; checks import gbasis "
                      "from /repo's working tree (VERIF_REPO overrides the path for mutation runs)",
            "baseline_off_cmd": "cd /repo && /venv/bin/python -m pytest -ra -q -p no:cacheprovider --timeout=900 "
                                "--continue-on-collection-errors",
            "source_commits": [],
            "add_only": True,
        },
        "engines": [{
            "name": "vf",
            "path": "vf/",
            "serves_properties": [c["property_id"] for c in checks],
            "kind_free_text": "property-based testing: Hypothesis strategies, rule-based state machines and "
                              "complete enumeration of finite convention spaces, judged by independent oracles "
                              "(vf/ref) or metamorphic relations; sharded over 16 processes",
        }],
        "checks": checks,
        "not_applicable": [{"property_id": p, "reason": NOT_YET} for p in props if p not in CHECKS],
        "notes": "exit 0 held / 1 VIOLATION / 2 harness error. VERIF_SEED seeds every Hypothesis shard; VERIF_BUDGET_S bounds "
                 "the wall time (unfinished shards are reported as inconclusive, never as violations). KNOWN_FINDINGS.txt lists "
                 "open findings (none) and the twelve fixed defects; replay/<ID>/reg-*.json are their regression inputs; seeded/ "
                 "holds 60 confirmed breaking changes written by independent sub-agents; mutants/ the mutation and "
                 "benign-refactoring campaigns.",
    }
    path = os.path.join(HERE, "MANIFEST.json")
    with open(path, "w") as fh:
        json.dump(man, fh, indent=1)
        fh.write("\n")
    try:
        import jsonschema
        schema = json.load(open("/root/.vp/MANIFEST.schema.json"))
        jsonschema.validate(man, schema)
        print("MANIFEST.json valid;", len(checks), "checks,", len(man["not_applicable"]), "not_applicable")
    except ImportError:
        print("jsonschema not importable here; run with python3-vt", file=sys.stderr)


if __name__ == "__main__":
    main()
