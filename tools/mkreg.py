#!/usr/bin/env python3
"""Write the committed regression cases replay/<ID>/reg-*.json: the specific inputs of the repaired defects D1-D12.
They are replayed (through the same judges, without Hypothesis) at the start of every run of the corresponding check."""
import json
import os

V = os.path.dirname(os.path.dirname(os.path.abspath(__file__)))


def sh(l, coord, exps, coeffs, t="cartesian"):
    return {"l": l, "coord": [float(x) for x in coord], "exps": [float(e) for e in exps], "coeffs": coeffs, "type": t}


def w(prop, name, sub, case, note):
    d = os.path.join(V, "replay", prop)
    os.makedirs(d, exist_ok=True)
    json.dump({"property": prop, "sub": sub, "case": case, "note": note}, open(os.path.join(d, f"reg-{name}.json"), "w"), indent=1)


s0 = sh(0, [0, 0, 0], [1.0], [[1.0]])
p1 = sh(1, [0.3, -0.2, 0.5], [0.8], [[1.0]])
# D1
w("C08", "D1-s-p-hermitian", "momenta", {"shells": [s0, p1], "transform": None},
  "D1: lower-triangle / diagonal blocks of momentum-type integrals were plain transposes")
# D4
w("C05", "D4-direct-order3", "values", {"shells": [s0, p1], "points": [[0.1, 0.2, -0.3], [0.3, -0.2, 0.5]], "orders": [[3, 0, 0], [0, 1, 3]],
                                        "transform": None}, "D4: deriv_type='direct' with an order >= 3 returned unrelated numbers")
# D8
w("C06", "D8-ked-threshold", "fields",
  {"shells": [s0, p1], "points": [[0.1, 0.2, -0.3], [0.5, 0.5, 0.5], [0.0, 0.0, 0.0]],
   "gamma": [[-0.5, 0.1, 0.0, 0.2], [0.1, -0.3, 0.05, 0.0], [0.0, 0.05, -0.4, 0.1], [0.2, 0.0, 0.1, -0.2]], "psd": False,
   "orders": [[1, 0, 1]], "alpha": 0.5, "transform": None, "deriv_type": "general"},
  "D8: threshold of the positive-definite kinetic energy density applied to 2 t+")
# D2 / D3
w("C14", "D2-mask-on-distance", "esp",
  {"shells": [s0], "gamma": [[1.0]], "points": [[0.0, 0.0, 18.0], [0.0, 1.0, 0.0]], "nuclei": [[0.0, 0.0, 0.0], [0.0, 3.0, 0.0]],
   "charges": [8.0, -2.0], "transform": None, "threshold": 4.5, "tcls": "random"},
  "D2: nucleus dropped when Z/d > 1/threshold (Z=8 at 18 bohr with threshold 4.5); negative charges never dropped")
w("C14", "D3-rectangular-transform", "esp",
  {"shells": [s0, p1], "gamma": [[1.0, 0.2], [0.2, 0.5]], "points": [[0.0, 0.0, 1.0]], "nuclei": [[0.0, 0.0, 0.0]], "charges": [1.0],
   "transform": [[1.0, 0.0, 0.5, 0.0], [0.0, 1.0, 0.0, -0.5]], "threshold": 0.0, "tcls": "zero"},
  "D3: rectangular transform rejected (density matrix sized against the untransformed basis)")
# D10
w("C10", "D10-embedded-sign", "malformed", {"l": 1, "labels": ["c1", "s1", "c0"], "edit": "embedded-sign", "i": 0, "j": 1},
  "D10: label 'c-1' accepted and read as s1")
# D5 / D6 / D7
shell_s = {"letters": "S", "exps": ["3.42525091E+00", "6.23913730E-01"], "cols": [["1.54328970E-01"], ["5.35328140E-01"]]}
shell_p = {"letters": "P", "exps": ["1.10000000E+00"], "cols": [["1.00000000E+00"]]}
for nh, hdr in ((0, []), (1, ['BASIS "ao basis" PRINT'])):
    w("C18", f"D5-nwchem-header-{nh}", "nwchem",
      {"fmt": "nwchem", "model": [["H", [shell_s, shell_p]], ["He", [shell_s]]],
       "layout": {"header": hdr, "indent": 4, "sep": 6, "gap": 4, "comments": False, "blanks": False, "end": True}, "style": "E"},
      "D5: parse_nwchem with fewer than two lines before the first shell lost or misassigned shells")
for nh, hdr in ((0, []), (1, ["****"])):
    w("C18", f"D6-gbs-header-{nh}", "gbs",
      {"fmt": "gbs", "model": [["H", [shell_s, shell_p]], ["He", [shell_s]]],
       "layout": {"header": hdr, "indent": 6, "sep": 7, "gap": 5, "comments": False, "blanks": False, "end": True}, "style": "E"},
      "D6: parse_gbs with fewer than two lines before the first element lost it")
for mode in ("list", "tuple"):
    w("C18", f"D7-coord-types-{mode}", "builders",
      {"basis_dict": {"H": [[0, [3.4, 0.6], [[0.15], [0.53]]], [1, [1.1], [[1.0]]]]}, "atoms": ["H", "H"], "atoms_tuple": False,
       "coords": [[0.0, 0.0, 0.0], [0.0, 0.0, 1.4]], "int_coords": False, "coord_types": ["c", "p", "p", "c"], "ct_mode": mode,
       "repeats": 2, "cart": True},
      "D7: make_contractions emptied the caller's coord_types list / rejected a tuple")
# D9: history
init = {"shells": [s0, p1], "points": [[0.1, 0.2, -0.3], [0.5, 0.5, 0.5]], "nuc_coords": [[0.3, 0.3, 0.3]], "nuc_charges": [1.0],
        "origin": [0.0, 0.0, 0.0], "orders": [[1, 0, 0], [0, 1, 1]], "deriv_order": [1, 0, 0], "alpha": 1, "beta": 0,
        "gamma": [[1.0, 0.1, 0.0, 0.0], [0.1, 0.5, 0.0, 0.0], [0.0, 0.0, 0.5, 0.0], [0.0, 0.0, 0.0, 0.5]],
        "transform": [[1.0, 0.0, 0.0, 0.0], [0.0, 1.0, 0.0, 0.0], [0.0, 0.0, 1.0, 0.0], [0.0, 0.0, 0.0, 1.0]],
        "gamma_t": [[1.0, 0.0, 0.0, 0.0], [0.0, 1.0, 0.0, 0.0], [0.0, 0.0, 1.0, 0.0], [0.0, 0.0, 0.0, 1.0]],
        "coord_types": ["c", "p", "p", "c"]}
w("C19", "D9-errstate-leak", "history",
  {"init": init, "steps": [{"rule": "set_errstate", "divide": "warn", "over": "warn", "invalid": "warn"},
                           {"rule": "invalid", "name": "esp-non-numeric-charges"},
                           {"rule": "valid", "name": "electrostatic_potential", "t": False}]},
  "D9: electrostatic_potential left divide='ignore' set when it raised")
w("C19", "D7-make-contractions-history", "history",
  {"init": init, "steps": [{"rule": "valid", "name": "make_contractions", "t": False}, {"rule": "valid", "name": "make_contractions", "t": False}]},
  "D7: second make_contractions call on the same coord_types list")
# D11
tight = sh(0, [0, 0, 0], [1e5], [[1.0]])
f07a = sh(3, [0.0, 0.7, 1.1], [0.7], [[1.0]])
f07b = sh(3, [-0.9, 0.2, 0.4], [0.7], [[1.0]])
w("C04", "D11-ss-ff-orientation", "illcond", {"label": "(s1e5 s1e5|f0.7 f0.7) 3c", "shells": [tight, tight, f07a, f07b]},
  "D11: tight s pair as bra with a diffuse f pair as ket lost accuracy (0.16 of the Schwarz scale)")
w("C11", "D11-ss-ff-orientations", "orientation-illcond", {"label": "(s1e5 s1e5|f0.7 f0.7) 3c", "shells": [tight, tight, f07a, f07b]},
  "D11: the two orientations of the quartet disagreed")
print("written")
