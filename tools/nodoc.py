"""Print python files without docstrings/blank lines (reading aid)."""
import ast, sys
for f in sys.argv[1:]:
    src = open(f).read(); tree = ast.parse(src); lines = src.split("\n"); kill = set()
    for node in ast.walk(tree):
        if isinstance(node, (ast.FunctionDef, ast.ClassDef, ast.Module)):
            b = node.body
            if b and isinstance(b[0], ast.Expr) and isinstance(getattr(b[0], "value", None), ast.Constant) and isinstance(b[0].value.value, str):
                kill.update(range(b[0].lineno - 1, b[0].end_lineno))
    print("=====", f)
    for i, l in enumerate(lines):
        if i in kill or not l.strip(): continue
        print(f"{i+1}: {l}")
