#!/usr/bin/env python3
"""Confirm a seeded breaking change produced by an independent sub-agent and record which checks catch it.

usage: tools/seeded.py confirm <ID> [--checks C01,C09,...] [--wt <worktree>] [--tag <record name>]     (worktree /tmp/wt-<ID> with seeded_out/{patch.diff,demo.py,meta.json})
       tools/seeded.py recheck <record> [...]     (apply each stored patch to a scratch worktree of /repo HEAD, run the checks recorded as catching it)
       tools/seeded.py reconfirm <record> [<record> ...] [--checks ...]     (stored records seeded/<record>/ against /repo HEAD, fresh scratch worktree each)

Steps (all in the scratch worktree, never in /repo):
  1. the worktree diff is reset to exactly seeded_out/patch.diff
  2. demo.py exits non-zero with the change, zero without it
  3. the repository's test-suite passes with the change
  4. every selected check's quick tier is run against the worktree (VERIF_REPO) with outputs in a scratch directory (VERIF_OUT)
  5. patch, demo and an extended meta.json are copied to /verif/seeded/<ID>/
"""
import json
import os
import shutil
import subprocess
import sys

VERIF = os.path.dirname(os.path.dirname(os.path.abspath(__file__)))
ALL = ["C%02d" % i for i in range(1, 21)]


def sh(cmd, **kw):
    return subprocess.run(cmd, shell=isinstance(cmd, str), capture_output=True, text=True, **kw)


def confirm(sid, checks, tag=None, wt=None):
    wt = wt or f"/tmp/wt-{sid}"
    out = os.path.join(wt, "seeded_out")
    patch = os.path.join(out, "patch.diff")
    name = tag or sid
    rec = {"id": name, "worktree": wt}
    sh(f"git -C {wt} checkout -- gbasis")
    r = sh(f"git -C {wt} apply {patch}")
    if r.returncode:
        rec["error"] = "patch does not apply: " + r.stderr[-300:]
        return rec
    py = "/venv/bin/python"
    r1 = sh(f"cd {wt} && {py} seeded_out/demo.py")
    rec["demo_with_change"] = r1.returncode
    sh(f"git -C {wt} apply -R {patch}")
    r0 = sh(f"cd {wt} && {py} seeded_out/demo.py")
    rec["demo_without_change"] = r0.returncode
    sh(f"git -C {wt} apply {patch}")
    rs = sh(f"cd {wt} && {py} -m pytest -q -p no:cacheprovider -n 8 2>&1 | tail -1")
    rec["suite_with_change"] = rs.stdout.strip()
    rec["suite_passes"] = " failed" not in rs.stdout and " error" not in rs.stdout and "passed" in rs.stdout
    scratch = f"/tmp/seedout-{name}"
    shutil.rmtree(scratch, ignore_errors=True)
    caught, missed, errs = [], [], []
    for c in checks:
        env = dict(os.environ, VERIF_REPO=wt, VERIF_OUT=scratch, VERIF_SEED=os.environ.get("VERIF_SEED", "1"))
        r = sh([os.path.join(VERIF, "check"), c, "quick"], env=env, cwd=VERIF)
        if r.returncode == 1 and f"VIOLATION property={c}" in r.stdout:
            first = [l for l in r.stdout.split("\n") if l.strip() and not l.startswith("VIOLATION")]
            caught.append({"check": c, "message": (first[0].strip() if first else "")[:300]})
        elif r.returncode == 0:
            missed.append(c)
        else:
            errs.append({"check": c, "tail": (r.stderr or r.stdout)[-300:]})
    shutil.rmtree(scratch, ignore_errors=True)
    rec["caught_by"] = caught
    rec["not_caught_by"] = missed
    rec["harness_errors"] = errs
    ok = rec["demo_with_change"] != 0 and rec["demo_without_change"] == 0 and rec["suite_passes"]
    rec["confirmed"] = ok
    if ok:
        dst = os.path.join(VERIF, "seeded", name)
        os.makedirs(dst, exist_ok=True)
        shutil.copy(patch, os.path.join(dst, "patch.diff"))
        shutil.copy(os.path.join(out, "demo.py"), os.path.join(dst, "demo.py"))
        meta = {}
        try:
            meta = json.load(open(os.path.join(out, "meta.json")))
        except Exception as e:  # noqa: BLE001
            meta = {"note": f"agent meta.json unreadable: {e}"}
        meta.update({
            "breaks_property": meta.get("property", sid),
            "confirmed_by_main": {
                "demo_exit_with_change": rec["demo_with_change"], "demo_exit_without_change": rec["demo_without_change"],
                "suite_with_change": rec["suite_with_change"],
                "how": f"git worktree of /repo HEAD at {wt}; patch applied with git apply; demo run as "
                       f"`cd <worktree> && /venv/bin/python seeded_out/demo.py`; suite `pytest -q -n 8`; checks run with "
                       f"VERIF_REPO=<worktree> ./check <ID> quick (VERIF_SEED={os.environ.get('VERIF_SEED', '1')})",
            },
            "checks_run": checks,
            "caught_by": caught,
            "not_caught_by": missed,
        })
        json.dump(meta, open(os.path.join(dst, "meta.json"), "w"), indent=1)
    return rec


def reconfirm(name, checks):
    """Re-run the confirmation of a stored record against /repo's current HEAD in a fresh scratch worktree (removed afterwards)."""
    src = os.path.join(VERIF, "seeded", name)
    wt = f"/tmp/wt-re-{name}"
    sh(f"git -C /repo worktree remove --force {wt}")
    r = sh(f"git -C /repo worktree add -q --detach {wt} HEAD")
    if r.returncode:
        return {"id": name, "error": r.stderr[-300:]}
    try:
        out = os.path.join(wt, "seeded_out")
        os.makedirs(out)
        for f in ("patch.diff", "demo.py", "meta.json"):
            shutil.copy(os.path.join(src, f), os.path.join(out, f))
        return confirm(name.split("-")[0], checks, tag=name, wt=wt)
    finally:
        sh(f"git -C /repo worktree remove --force {wt}")
        sh("git -C /repo worktree prune")


def recheck(names):
    """Quick regression of the records: apply each stored patch to a scratch worktree of /repo HEAD and run the checks that caught it
    when it was confirmed (all of them); report any that no longer does.  The records are not rewritten, except for a
    `rechecked` entry naming the HEAD and the checks that still catch the change."""
    head = sh("git -C /repo rev-parse --short HEAD").stdout.strip()
    wt = f"/tmp/wt-recheck-{os.getpid()}"
    sh(f"git -C /repo worktree remove --force {wt}")
    r = sh(f"git -C /repo worktree add -q --detach {wt} HEAD")
    if r.returncode:
        print("cannot create worktree", r.stderr)
        return 2
    bad = 0
    try:
        for name in names:
            src = os.path.join(VERIF, "seeded", name)
            meta = json.load(open(os.path.join(src, "meta.json")))
            sh(f"git -C {wt} checkout -q -- .")
            r = sh(f"git -C {wt} apply {os.path.join(src, 'patch.diff')}")
            if r.returncode:
                print(name, "PATCH-DOES-NOT-APPLY", flush=True)
                bad += 1
                continue
            want = [c["check"] for c in meta.get("caught_by", [])]
            scratch = f"/tmp/seedout-recheck-{os.getpid()}"
            still, lost = [], []
            for c in want:
                env = dict(os.environ, VERIF_REPO=wt, VERIF_OUT=scratch, VERIF_SEED="1")
                rr = sh([os.path.join(VERIF, "check"), c, "quick"], env=env, cwd=VERIF)
                (still if (rr.returncode == 1 and f"VIOLATION property={c}" in rr.stdout) else lost).append(c)
            shutil.rmtree(scratch, ignore_errors=True)
            meta["rechecked"] = {"repo_head": head, "still_caught_by": still, "no_longer_caught_by": lost}
            json.dump(meta, open(os.path.join(src, "meta.json"), "w"), indent=1)
            print(name, "OK" if still and not lost else ("LOST:" + ",".join(lost) if still else "NOT-CAUGHT"), "still=" + ",".join(still), flush=True)
            if not still:
                bad += 1
    finally:
        sh(f"git -C /repo worktree remove --force {wt}")
        sh("git -C /repo worktree prune")
    return 1 if bad else 0


def main(argv):
    if len(argv) >= 2 and argv[0] == "recheck":
        return recheck(argv[1:])
    if len(argv) >= 2 and argv[0] == "reconfirm":
        checks = argv[argv.index("--checks") + 1].split(",") if "--checks" in argv else ALL
        bad = 0
        for name in argv[1:]:
            if name.startswith("--") or (argv[argv.index(name) - 1] == "--checks"):
                continue
            rec = reconfirm(name, checks)
            ok = rec.get("confirmed") and not rec.get("harness_errors")
            bad += 0 if ok else 1
            print(name, "confirmed" if rec.get("confirmed") else "NOT-CONFIRMED", "caught_by=" + ",".join(c["check"] for c in rec.get("caught_by", [])),
                  "harness_errors=%d" % len(rec.get("harness_errors", [])), rec.get("error", ""), flush=True)
        return 1 if bad else 0
    if len(argv) < 2 or argv[0] != "confirm":
        print(__doc__)
        return 2
    sid = argv[1]
    checks = ALL
    tag = None
    if "--checks" in argv:
        checks = argv[argv.index("--checks") + 1].split(",")
    if "--tag" in argv:
        tag = argv[argv.index("--tag") + 1]
    wt = argv[argv.index("--wt") + 1] if "--wt" in argv else None
    rec = confirm(sid, checks, tag, wt)
    print(json.dumps(rec, indent=1))
    return 0 if rec.get("confirmed") else 1


if __name__ == "__main__":
    sys.exit(main(sys.argv[1:]))
