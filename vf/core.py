"""Shared plumbing: locating the code under test, cases-as-data, verdicts, hashing."""
import hashlib
import json
import os
import sys

import numpy as np

REPO = os.environ.get("VERIF_REPO", "/repo")
VERIF = os.path.dirname(os.path.dirname(os.path.abspath(__file__)))


def use_repo():
    """Make `import gbasis` resolve to the working tree under test (no build step: pure Python)."""
    if sys.path[0] != REPO:
        sys.path.insert(0, REPO)
    import gbasis  # noqa: F401

    got = os.path.dirname(os.path.dirname(os.path.abspath(gbasis.__file__)))
    if os.path.realpath(got) != os.path.realpath(REPO):
        raise RuntimeError(f"gbasis imported from {got}, expected {REPO}")


use_repo()
from gbasis.contractions import GeneralizedContractionShell  # noqa: E402


# ---------------------------------------------------------------------------------------------
# cases are plain data
# ---------------------------------------------------------------------------------------------
def sh(l, coord, exps, coeffs, ctype="cartesian"):
    """A shell as plain data. coeffs is a K x M nested list."""
    return {
        "l": int(l),
        "coord": [float(x) for x in coord],
        "exps": [float(x) for x in exps],
        "coeffs": [[float(c) for c in row] for row in coeffs],
        "type": ctype,
    }


def mk_shell(d, cls=GeneralizedContractionShell, **kw):
    return cls(
        d["l"],
        np.array(d["coord"], dtype=float),
        np.array(d["coeffs"], dtype=float),
        np.array(d["exps"], dtype=float),
        d.get("type", "cartesian"),
        **kw,
    )


def mk_basis(shells, **kw):
    """A list for an even number of shells, a tuple for an odd number (both are documented containers; make_contractions
    returns a tuple)."""
    out = [mk_shell(d, **kw) for d in shells]
    return out if len(out) % 2 == 0 else tuple(out)


def nfunc(d, ctype=None):
    t = ctype or d["type"]
    l = d["l"]
    n = (l + 1) * (l + 2) // 2 if t == "cartesian" else 2 * l + 1
    return n * len(d["coeffs"][0])


def jsonable(x):
    if isinstance(x, dict):
        return {str(k): jsonable(v) for k, v in x.items()}
    if isinstance(x, (list, tuple)):
        return [jsonable(v) for v in x]
    if isinstance(x, np.ndarray):
        return jsonable(x.tolist())
    if isinstance(x, (np.integer,)):
        return int(x)
    if isinstance(x, (np.floating,)):
        return float(x)
    if isinstance(x, (np.bool_,)):
        return bool(x)
    if isinstance(x, complex):
        return {"re": x.real, "im": x.imag}
    if isinstance(x, bytes):
        return x.decode("latin-1")
    return x


def case_hash(case):
    s = json.dumps(jsonable(case), sort_keys=True, allow_nan=True)
    return hashlib.sha1(s.encode()).hexdigest()[:16]


def sub_seed(*parts):
    s = "|".join(str(p) for p in parts)
    return int(hashlib.sha256(s.encode()).hexdigest()[:12], 16)


class Verdict:
    """Outcome of judging one case.

    ok          property held on this case
    msg         what failed (when not ok)
    nontrivial  case satisfies the property's stated non-triviality rule
    classes     labels for the generator-distribution histogram
    key         canonical key of the failing input (matched against KNOWN_FINDINGS.txt)
    info        small dict of measured numbers (worst deviation etc.)
    """

    __slots__ = ("ok", "msg", "nontrivial", "classes", "key", "info")

    def __init__(self, ok=True, msg="", nontrivial=False, classes=(), key=None, info=None):
        self.ok = ok
        self.msg = msg
        self.nontrivial = nontrivial
        self.classes = list(classes)
        self.key = key
        self.info = info or {}

    def fail(self, msg, key=None):
        if self.ok:
            self.ok = False
            self.msg = msg
            self.key = key
        return self


class LibRaised(Exception):
    """The library raised on an input that the property's domain documents as valid."""


def lib(fn, *a, **k):
    """Call into the library; an exception becomes LibRaised (a property failure, not a harness error)."""
    try:
        return fn(*a, **k)
    except Exception as e:  # noqa: BLE001 - any exception from the library on a valid input
        raise LibRaised(f"{getattr(fn, '__name__', fn)} raised {type(e).__name__}: {e}") from e


def maxdev(a, b, scale=None):
    """Largest |a-b| (optionally relative to an element-wise scale array); nan/inf mismatch -> inf."""
    a = np.asarray(a)
    b = np.asarray(b)
    if a.shape != b.shape:
        return float("inf"), None
    if a.size == 0:
        return 0.0, None
    d = np.abs(a - b)
    bad = ~np.isfinite(d)
    if bad.any():
        same = bad & (np.asarray(a == b) | (np.isnan(a) & np.isnan(b)))
        d = np.where(same, 0.0, d)
        d = np.where(~np.isfinite(d), np.inf, d)
    if scale is not None:
        d = d / scale
    i = np.unravel_index(int(np.argmax(d)), d.shape)
    return float(d[i]), tuple(int(x) for x in i)


POINT_FORMS = ("c-float64", "fortran-order", "strided-view", "integer-dtype", "float32-dtype", "c-float64")


def present_points(pts, selector):
    """The same evaluation points in one of the array forms callers use.  Returns (array to pass, float64 C-contiguous values it
    denotes, label).  Memory layout never changes the values; for the integer and float32 forms the coordinates are first rounded
    to values that the dtype represents exactly (integer grids are what the repository's own tests pass; float32 grids are
    accepted and up-cast by the subtraction of the float64 centre), and the oracle must use the returned values."""
    pts = np.ascontiguousarray(np.asarray(pts, dtype=float).reshape(-1, 3))
    form = POINT_FORMS[int(selector) % len(POINT_FORMS)]
    if form == "fortran-order":
        return np.asfortranarray(pts), pts, form
    if form == "strided-view":
        wide = np.zeros((len(pts), 5))
        wide[:, 1:4] = pts
        return wide[:, 1:4], pts, form
    if form == "integer-dtype":
        if np.abs(pts).max(initial=0.0) > 1e6:
            return pts, pts, "c-float64"
        ip = np.rint(pts).astype(int)
        return ip, np.ascontiguousarray(ip.astype(float)), form
    if form == "float32-dtype":
        fp = pts.astype(np.float32)
        return fp, np.ascontiguousarray(fp.astype(float)), form
    return pts, pts, "c-float64"
