"""Hypothesis strategies for the common input domain (DESIGN.md section 4).

Everything random comes from Hypothesis (no private RNG).  Strategies build plain-data cases.
Generators construct instead of rejecting; the one soundness repair (a contraction whose primitives
cancel to almost nothing) is deterministic and reported through the `repaired` flag of the shell.
"""
import math

from hypothesis import strategies as st

TYPES = ("cartesian", "spherical")


def exp_cap(l):
    """Largest exponent 'in the range of published sets' for angular momentum l."""
    return max(10.0, 10.0 ** (5 - l))


@st.composite
def log_uniform(draw, lo, hi):
    u = draw(st.floats(min_value=math.log(lo), max_value=math.log(hi), allow_nan=False))
    return min(hi, max(lo, math.exp(u)))


@st.composite
def exponents(draw, k, lo, hi):
    """k exponents, log-uniform, with end points and (near-)duplicates injected."""
    out = []
    for i in range(k):
        mode = draw(st.integers(0, 19))
        if mode == 0:
            e = lo
        elif mode == 1:
            e = hi
        elif mode == 2 and out:
            e = out[-1]  # exact duplicate
        elif mode == 3 and out:
            e = min(hi, max(lo, out[-1] * (1 + draw(st.sampled_from([1e-8, 1e-4, 1e-2])))))
        else:
            e = draw(log_uniform(lo, hi))
        out.append(float(e))
    return out


def _same_centre_overlap(l, a, b):
    return (2.0 * math.sqrt(a * b) / (a + b)) ** (l + 1.5)


def repair_cancellation(l, exps, coeffs, floor=0.02):
    """Make the signs of a column equal when c^T S c / |c|^T S |c| < floor.  Returns (coeffs, repaired)."""
    k = len(exps)
    m = len(coeffs[0])
    repaired = False
    cols = [[coeffs[i][j] for i in range(k)] for j in range(m)]
    for j, c in enumerate(cols):
        num = den = 0.0
        for p in range(k):
            for q in range(k):
                s = _same_centre_overlap(l, exps[p], exps[q])
                num += c[p] * c[q] * s
                den += abs(c[p] * c[q]) * s
        if num < floor * den:
            cols[j] = [abs(v) for v in c]
            repaired = True
    return [[cols[j][i] for j in range(m)] for i in range(k)], repaired


@st.composite
def coefficient(draw, lo=0.05, hi=5.0):
    mag = draw(log_uniform(lo, hi))
    return mag if draw(st.integers(0, 3)) else -mag  # 1 in 4 negative


@st.composite
def shell(draw, l, coord, kmax=4, mmax=3, types=TYPES, exp_lo=0.02, exp_hi=None, kmin=1, mmin=1):
    if not isinstance(l, int):
        l = draw(l)
    k = draw(st.integers(kmin, kmax))
    m = draw(st.integers(mmin, mmax))
    hi = exp_cap(l) if exp_hi is None else exp_hi
    ex = draw(exponents(k, exp_lo, hi))
    co = [[draw(coefficient()) for _ in range(m)] for _ in range(k)]
    zeros = False
    if k >= 2 and m >= 2 and draw(st.integers(0, 3)) == 0:
        # structural zeros, as in segmented sets written in general-contraction format (cc-pVDZ: columns [c,0],[c,0],[c,1]):
        # some primitives do not take part in some columns; every column keeps at least one primitive
        for j in range(m):
            keep = draw(st.integers(0, k - 1))
            for i in range(k):
                if i != keep and draw(st.booleans()):
                    co[i][j] = 0.0
        zeros = True
    co, rep = repair_cancellation(l, ex, co)
    t = draw(st.sampled_from(types)) if len(types) > 1 else types[0]
    out = {"l": l, "coord": [float(v) for v in coord], "exps": ex, "coeffs": co, "type": t}
    if rep:
        out["repaired"] = True
    if zeros:
        out["structural_zeros"] = True
    return out


@st.composite
def coordinate(draw, half):
    mode = draw(st.integers(0, 5))
    if mode == 0:
        return 0.0
    if mode == 1:
        return float(draw(st.integers(-int(max(1, half)), int(max(1, half)))))
    return draw(st.floats(min_value=-half, max_value=half, allow_nan=False, width=64))


@st.composite
def centres(draw, n, p_same=0.35, halves=(0.5, 2.0, 5.0, 15.0)):
    """n centres placed relative to earlier ones: same / on an axis or plane through one / general."""
    half = draw(st.sampled_from(halves))
    out = []
    for i in range(n):
        if out:
            mode = draw(st.integers(0, 99))
            base = out[draw(st.integers(0, len(out) - 1))]
            if mode < int(100 * p_same):
                out.append(list(base))
                continue
            if mode >= 97:  # almost coincident with an earlier centre
                c = list(base)
                ax = draw(st.integers(0, 2))
                c[ax] = c[ax] + draw(st.sampled_from([1e-9, 1e-7, 1e-6, 1e-5, 1e-4, -1e-6]))
                out.append(c)
                continue
            if mode < int(100 * p_same) + 25:
                c = list(base)  # differs from an earlier centre in one or two coordinates only
                for ax in draw(st.sampled_from([(0,), (1,), (2,), (0, 1), (0, 2), (1, 2)])):
                    c[ax] = draw(coordinate(half))
                out.append(c)
                continue
        out.append([draw(coordinate(half)) for _ in range(3)])
    return out


@st.composite
def basis(draw, nmin=1, nmax=4, lmax=4, first_ls=(), kmax=4, mmax=3, types=TYPES, exp_lo=0.02,
          exp_hi=None, p_same=0.35, halves=(0.5, 2.0, 5.0, 15.0)):
    """A list of shells; the first shells take the angular momenta in `first_ls` (enumeration cells)."""
    n = max(draw(st.integers(nmin, nmax)), len(first_ls))
    cs = draw(centres(n, p_same=p_same, halves=halves))
    out = []
    for i in range(n):
        l = first_ls[i] if i < len(first_ls) else draw(st.integers(0, lmax))
        if i >= max(1, len(first_ls)) and out and draw(st.integers(0, 4)) == 0:
            # "the same element on another atom": an exact copy of an earlier shell (same l, exponents, coefficients and
            # type) on this shell's centre - molecules repeat elements, random shells never coincide
            src = out[draw(st.integers(0, len(out) - 1))]
            cp = dict(src, coord=[float(v) for v in cs[i]], replicated=True)
            out.append(cp)
            continue
        out.append(draw(shell(l, cs[i], kmax=kmax, mmax=mmax, types=types, exp_lo=exp_lo, exp_hi=exp_hi)))
    if len(out) >= 4 and len(first_ls) <= 2 and draw(st.integers(0, 2)) == 0:
        # a whole two-shell "atom" repeated: shells 2,3 become copies of shells 0,1 displaced rigidly
        d = [draw(coordinate(5.0)) for _ in range(3)]
        if any(abs(x) > 1e-6 for x in d):
            for k in (0, 1):
                out[2 + k] = dict(out[k], coord=[a + b for a, b in zip(out[k]["coord"], d)], replicated=True)
    return out


@st.composite
def points_near(draw, cents, nmin=1, nmax=6, far=100.0):
    """Points: on a centre, on an axis/plane through a centre, midway, near, far."""
    n = draw(st.integers(nmin, nmax))
    out = []
    for _ in range(n):
        mode = draw(st.integers(0, 6))
        base = cents[draw(st.integers(0, len(cents) - 1))]
        if mode == 6:  # almost on a centre (tolerance-based shortcuts must not snap it onto the centre)
            p = list(base)
            ax = draw(st.integers(0, 2))
            p[ax] = p[ax] + draw(st.sampled_from([1e-10, 1e-8, 1e-6, 1e-5, 1e-4, -1e-7, -1e-5]))
            out.append(p)
        elif mode == 0:
            out.append(list(base))
        elif mode == 1:
            p = list(base)
            for ax in draw(st.sampled_from([(0,), (1,), (2,), (0, 1), (0, 2), (1, 2)])):
                p[ax] = p[ax] + draw(st.floats(-3, 3, allow_nan=False))
            out.append(p)
        elif mode == 2:
            other = cents[draw(st.integers(0, len(cents) - 1))]
            out.append([(a + b) / 2 for a, b in zip(base, other)])
        elif mode in (3, 4):
            out.append([b + draw(st.floats(-1.5, 1.5, allow_nan=False)) for b in base])
        else:
            r = draw(log_uniform(10.0, far))
            d = [draw(st.floats(-1, 1, allow_nan=False)) for _ in range(3)]
            nrm = math.sqrt(sum(v * v for v in d)) or 1.0
            if nrm < 1e-3:
                d, nrm = [1.0, 0.0, 0.0], 1.0
            out.append([b + r * v / nrm for b, v in zip(base, d)])
    return [[float(v) for v in p] for p in out]


@st.composite
def sym_matrix(draw, n, psd=None):
    """Symmetric n x n matrix with O(1) entries; psd=True -> B^T B of random rank."""
    if psd is None:
        psd = draw(st.booleans())
    el = st.floats(-1.5, 1.5, allow_nan=False, width=32)
    if psd:
        r = draw(st.integers(1, max(1, min(n, 3))))
        B = [[draw(el) for _ in range(n)] for _ in range(r)]
        return [[sum(B[k][i] * B[k][j] for k in range(r)) for j in range(n)] for i in range(n)], True
    A = [[draw(el) for _ in range(n)] for _ in range(n)]
    G = [[(A[i][j] + A[j][i]) / 2 for j in range(n)] for i in range(n)]
    if draw(st.integers(0, 3)) == 0:
        # exactly zero diagonal entries with non-zero couplings (transition / difference densities, "hollow" matrices)
        for i in range(n):
            if draw(st.booleans()):
                G[i][i] = 0.0
    return G, False


@st.composite
def transform_matrix(draw, ncont, square=None):
    """Dense real T (K_orb x ncont): K_orb below, equal to or above ncont."""
    if square is True:
        rows = ncont
    else:
        rows = draw(st.sampled_from(sorted({1, max(1, ncont - 1), ncont, ncont + 1, ncont + 2})))
    el = st.floats(-1.5, 1.5, allow_nan=False, width=32)
    mode = draw(st.integers(0, 5))
    T = [[draw(el) for _ in range(ncont)] for _ in range(rows)]
    if mode == 0:  # permutation-like
        perm = draw(st.permutations(list(range(ncont))))
        T = [[1.0 if perm[i % ncont] == j else 0.0 for j in range(ncont)] for i in range(rows)]
    elif mode == 1 and rows > 1:  # rank deficient: repeat a row
        T[-1] = list(T[0])
    return T


@st.composite
def with_prefactor_distance(draw, shells, p=0.34):
    """With probability p move shell 1 to a distance from shell 0 at which the Gaussian-product prefactor exp(-mu_min R^2) of their
    most diffuse primitives takes a drawn value 10^-k, k uniform in 0..17: the band just inside / outside any screening or
    underflow threshold is then populated by construction instead of by luck."""
    if len(shells) < 2 or draw(st.floats(0, 1, allow_nan=False)) > p:
        return shells
    a, b = min(shells[0]["exps"]), min(shells[1]["exps"])
    mu = a * b / (a + b)
    k = draw(st.floats(0.0, 17.0, allow_nan=False))
    r = math.sqrt(k * math.log(10.0) / mu)
    u = [draw(st.floats(-1, 1, allow_nan=False)) for _ in range(3)]
    un = math.sqrt(sum(t * t for t in u))
    if un < 1e-2 or draw(st.integers(0, 3)) == 0:
        u, un = [[1.0, 0.0, 0.0], [0.0, 1.0, 0.0], [0.0, 0.0, 1.0]][draw(st.integers(0, 2))], 1.0
    out = [dict(x) for x in shells]
    out[1]["coord"] = [c + r * t / un for c, t in zip(out[0]["coord"], u)]
    out[1]["placed"] = "prefactor-1e-%d" % int(k)
    return out
