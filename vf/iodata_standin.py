"""A stand-in for the `iodata` package (not installable here), sufficient for gbasis.wrappers.from_iodata.

from_iodata needs `iodata.convert.convert_to_segmented` (the stand-in returns a segmented basis unchanged) and an object whose class
is named IOData with `obasis` (shells, conventions, primitive_normalization) and `atcoords`."""
import sys
import types

import numpy as np


def install():
    if "iodata.convert" not in sys.modules or not getattr(sys.modules["iodata.convert"], "_vf_fake", False):
        pkg = types.ModuleType("iodata")
        conv = types.ModuleType("iodata.convert")
        conv.convert_to_segmented = lambda obasis: obasis
        conv._vf_fake = True
        pkg.convert = conv
        sys.modules["iodata"] = pkg
        sys.modules["iodata.convert"] = conv


class Shell:  # iodata.basis.Shell
    def __init__(self, icenter, d):
        self.icenter = icenter
        self.angmoms = [d["l"]]
        self.kinds = ["c" if d["type"] == "cartesian" else "p"]
        self.exponents = np.array(d["exps"], dtype=float)
        self.coeffs = np.array(d["coeffs"], dtype=float)
        self.ncon = 1


class MolecularBasis:
    pass


class IOData:
    pass


def molecule(shells, conv):
    """shells: plain-data segmented shells (one per centre index); conv: {str(l): {"c": [[ax,ay,az]..], "p": [labels]}}."""
    install()
    ob = MolecularBasis()
    ob.shells = [Shell(i, d) for i, d in enumerate(shells)]
    ob.conventions = {}
    for l, c in conv.items():
        ob.conventions[(int(l), "c")] = ["x" * a + "y" * b + "z" * cc for a, b, cc in c["c"]]
        ob.conventions[(int(l), "p")] = list(c["p"])
    ob.primitive_normalization = "L2"
    mol = IOData()
    mol.obasis = ob
    mol.atcoords = np.array([d["coord"] for d in shells], dtype=float)
    return mol
