"""C01 - overlap integrals exact, unit diagonal, asymmetric = block of the union."""
import numpy as np
from hypothesis import strategies as st

from vf import gen
from vf.core import Verdict, lib, maxdev, mk_basis
from vf.ref import r3
from vf.run import SubCheck

from gbasis.integrals.overlap import Overlap, overlap_integral
from gbasis.integrals.overlap_asymm import overlap_integral_asymmetric

RULE = ("All 36 ordered pairs (l_a,l_b) in 0..5 are enumerated as shards; per pair Hypothesis draws a basis of "
        "2-4 generalized shells (first two with those momenta; K 1-4 primitives, M 1-3 segments, "
        "Cartesian/spherical per shell, centres same/axis/plane/general, exponents log-uniform 0.02..cap(l) "
        "with end points and duplicates injected) and a split point.  Oracle: R1 binomial-expansion integrals "
        "+ textbook norms + R4 harmonics, in documented order.  A case is non-trivial when some pair of "
        "shells on different centres has a reference overlap element above 1e-6; distinct by hash of the "
        "case data.")
ASSUMPTIONS = [
    "reference integrals come from vf/ref (R1/R3/R4), validated by vf.selftest against quadrature and HORTON data",
    "contractions whose primitives cancel below 2% of their absolute overlap are outside the domain (repaired by construction)",
]
TOL = 1e-8


def strategy(shard):
    la, lb = shard["la"], shard["lb"]
    return st.fixed_dictionaries({
        "shells": gen.basis(nmin=2, nmax=4, lmax=5, first_ls=(la, lb)).flatmap(gen.with_prefactor_distance),
        "split": st.integers(1, 3),
    })


def judge(case):
    shells = case["shells"]
    v = Verdict(classes=["l%d-l%d" % (shells[0]["l"], shells[1]["l"])])
    R = r3.refs(shells)
    ref = r3.two_index(R, R, r3.overlap_block)
    bas = mk_basis(shells)
    got = lib(overlap_integral, bas)
    # non-triviality: off-diagonal pair on different centres with a visible overlap
    off = r3.offsets(R)
    for i in range(len(R)):
        for j in range(i + 1, len(R)):
            if np.any(R[i].A != R[j].A) and np.abs(ref[off[i]:off[i + 1], off[j]:off[j + 1]]).max() > 1e-6:
                v.nontrivial = True
    types = {s["type"] for s in shells}
    v.classes.append("mixed" if len(types) == 2 else next(iter(types)))
    if any(len(s["coeffs"][0]) > 1 for s in shells):
        v.classes.append("generalized")
    if any(s.get("structural_zeros") for s in shells):
        v.classes.append("structural-zeros")
    if shells[1].get("placed"):
        v.classes.append("placed-by-prefactor")
    if any(s.get("repaired") for s in shells):
        v.classes.append("cancellation-repaired")
    d, at = maxdev(got, ref)
    v.info["abs_dev"] = d
    if not d <= TOL:
        return v.fail(f"overlap_integral deviates from exact integrals by {d:.3e} at {at} (tol {TOL})")
    dd = float(np.abs(np.diag(got) - 1).max())
    v.info["diag_dev"] = dd
    if not dd <= TOL:
        return v.fail(f"diagonal element differs from 1 by {dd:.3e}")
    # asymmetric: split the shell list
    k = min(case["split"], len(shells) - 1)
    b1, b2 = mk_basis(shells[:k]), mk_basis(shells[k:])
    asym = lib(overlap_integral_asymmetric, b1, b2)
    n1 = off[k]
    d, at = maxdev(asym, ref[:n1, n1:])
    v.info["asym_dev"] = d
    if not d <= TOL:
        return v.fail(f"overlap_integral_asymmetric deviates from exact by {d:.3e} at {at}")
    d, at = maxdev(asym, got[:n1, n1:])
    if not d <= 2 * TOL:
        return v.fail(f"asymmetric overlap differs from the block of the union's overlap by {d:.3e} at {at}")
    # block level, un-contraction-normalised
    blk = lib(Overlap.construct_array_contraction, bas[0], bas[1])
    want = r3.overlap_block(R[0], R[1], normalised=False)
    if blk.shape != want.shape:
        return v.fail(f"construct_array_contraction shape {blk.shape}, expected {want.shape}")
    scale = 1.0 / (R[0].cn[:, :, None, None] * R[1].cn[None, None, :, :])
    d, at = maxdev(blk, want, scale)
    v.info["block_dev"] = d
    if not d <= TOL:
        return v.fail(f"Overlap.construct_array_contraction deviates by {d:.3e} (normalised units) at {at}")
    return v


def shards(tier):
    n = 10 if tier == "quick" else 300
    return [{"id": f"{la}{lb}", "la": la, "lb": lb, "n": n, "cost": n * (1 + la + lb)}
            for la in range(6) for lb in range(6)]


def strategy_many(shard):
    """10-13 small shells: two-digit shell indices, many blocks."""
    sh_ = gen.basis(nmin=10, nmax=13, lmax=1, kmax=2, mmax=2, exp_lo=0.1, exp_hi=20.0, halves=(2.0, 5.0), p_same=0.2)
    return st.fixed_dictionaries({"shells": sh_, "split": st.integers(1, 9)})


def shards_many(tier):
    return [{"id": i, "n": 1 if tier == "quick" else 6, "la": 0, "lb": 0, "cost": 30} for i in range(4 if tier == "quick" else 16)]


SUBCHECKS = [SubCheck("overlap", judge, shards, strategy=strategy),
             SubCheck("many-shells", judge, shards_many, strategy=strategy_many)]
EXHAUSTIVE = {"l_pairs": "all 36 ordered (l_a,l_b) in 0..5"}
EXPECTED_CLASSES = ["overlap/mixed", "overlap/generalized", "overlap/placed-by-prefactor", "overlap/structural-zeros"]
