"""C02 - kinetic-energy integrals exact."""
import numpy as np
from hypothesis import strategies as st

from vf import gen
from vf.core import Verdict, lib, maxdev, mk_basis
from vf.ref import r3
from vf.run import SubCheck

from gbasis.integrals.kinetic_energy import KineticEnergyIntegral, kinetic_energy_integral

RULE = ("All 36 ordered pairs (l_a,l_b) in 0..5 enumerated as shards; per pair Hypothesis draws a basis of 2-4 "
        "generalized shells (K 1-4, M 1-3, Cartesian/spherical per shell, centres same/axis/plane/general, "
        "exponents log-uniform 0.02..cap(l) with end points and duplicates).  Oracle: T_ab = -1/2 sum_axis "
        "<a|d^2/dx^2|b> from R1 with the ket polynomial differentiated as a coefficient array; tolerance "
        "1e-8*sqrt(T_aa T_bb) with oracle diagonals.  Non-trivial: some pair of shells on different centres has "
        "|T_ab| above 1e-6 of its scale; distinct by hash of the case data.")
ASSUMPTIONS = ["reference integrals from vf/ref R1/R3/R4 (validated by vf.selftest incl. HORTON kinetic matrix)"]
TOL = 1e-8


def strategy(shard):
    return st.fixed_dictionaries({"shells": gen.basis(nmin=2, nmax=4, lmax=5, first_ls=(shard["la"], shard["lb"])).flatmap(gen.with_prefactor_distance)})


def judge(case):
    shells = case["shells"]
    v = Verdict(classes=["l%d-l%d" % (shells[0]["l"], shells[1]["l"])])
    R = r3.refs(shells)
    ref = r3.two_index(R, R, r3.kinetic_block)
    bas = mk_basis(shells)
    got = lib(kinetic_energy_integral, bas)
    dg = np.sqrt(np.abs(np.diag(ref)))
    scale = dg[:, None] * dg[None, :]
    off = r3.offsets(R)
    for i in range(len(R)):
        for j in range(i + 1, len(R)):
            blk = (np.abs(ref) / scale)[off[i]:off[i + 1], off[j]:off[j + 1]]
            if np.any(R[i].A != R[j].A) and blk.max() > 1e-6:
                v.nontrivial = True
    types = {s["type"] for s in shells}
    v.classes.append("mixed" if len(types) == 2 else next(iter(types)))
    if shells[0]["l"] >= 2:
        v.classes.append("left-l>=2")
    d, at = maxdev(got, ref, scale)
    v.info["rel_dev"] = d
    if not d <= TOL:
        return v.fail(f"kinetic_energy_integral deviates by {d:.3e} of sqrt(T_aa T_bb) at {at} (tol {TOL})")
    d, at = maxdev(got, got.T, scale)
    if not d <= 2 * TOL:
        return v.fail(f"kinetic matrix not symmetric: {d:.3e} at {at}")
    blk = lib(KineticEnergyIntegral.construct_array_contraction, bas[0], bas[1])
    want = r3.kinetic_block(R[0], R[1], normalised=False)
    if blk.shape != want.shape:
        return v.fail(f"construct_array_contraction shape {blk.shape}, expected {want.shape}")
    s0 = dg[off[0]:off[1]] if R[0].type == "cartesian" else None
    # scale per element from cartesian diagonals of each shell (independent of coord type)
    da = np.sqrt(np.abs(np.einsum("mcmc->mc", r3.kinetic_block(R[0], R[0])))) / R[0].cn
    db = np.sqrt(np.abs(np.einsum("mcmc->mc", r3.kinetic_block(R[1], R[1])))) / R[1].cn
    d, at = maxdev(blk, want, da[:, :, None, None] * db[None, None, :, :])
    v.info["block_dev"] = d
    if not d <= TOL:
        return v.fail(f"KineticEnergyIntegral.construct_array_contraction deviates by {d:.3e} at {at}")
    return v


def shards(tier):
    n = 10 if tier == "quick" else 300
    return [{"id": f"{la}{lb}", "la": la, "lb": lb, "n": n, "cost": n * (1 + la + lb)}
            for la in range(6) for lb in range(6)]


SUBCHECKS = [SubCheck("kinetic", judge, shards, strategy=strategy)]
EXHAUSTIVE = {"l_pairs": "all 36 ordered (l_a,l_b) in 0..5"}
