"""C03 - point-charge and nuclear-attraction integrals exact."""
import os

import numpy as np
from hypothesis import strategies as st

from vf import gen
from vf.core import Verdict, case_hash, lib, maxdev, mk_basis, mk_shell
from vf.ref import r2, r3
from vf.run import SubCheck

from gbasis.integrals.nuclear_electron_attraction import nuclear_electron_attraction_integral
from gbasis.integrals.point_charge import PointChargeIntegral, point_charge_integral

RULE = ("All 36 ordered pairs (l_a,l_b) in 0..5 enumerated as shards (l_a<l_b exercises the internal swap); Hypothesis "
        "draws a basis of 2-3 generalized mixed-type shells and 1-5 charges from the position classes {on centre A, on "
        "centre B, midpoint, near, far 10-100 bohr, 1e-10..1e-4 off a centre, or at a drawn Boys argument 0.01-300 of a drawn primitive pair}, either sign, |q| log-uniform 0.1..100.  Oracle: McMurchie-Davidson "
        "(R2) per charge, tolerance 1e-8*sqrt(|V_aa V_bb|) for the same charge with oracle diagonals; a float-oracle "
        "deviation is confirmed by the 40-digit mpmath instantiation before it counts.  The nuclear-attraction matrix "
        "must equal the sum over the charge axis.  Non-trivial: a pair of different shells with |V_ab| above 1e-6 of the "
        "scale; classes record charge position and Boys-argument decade.  Sub-check extreme-ratio: per l pair one diffuse (0.02-0.06) "
        "and one tight (cap(l)/4..cap(l)) uncontracted shell in either order at a drawn Gaussian-product prefactor 1..1e-6; in a third "
        "of the cases both shells carry one two-primitive contraction with a diffuse and a tight primitive.")
ASSUMPTIONS = ["reference integrals from vf/ref R2 (selftest: Gaussian-transform quadrature, mpmath, HORTON nuclear attraction)"]
TOL = 1e-8


@st.composite
def charges(draw, cents, shells=None):
    n = draw(st.integers(1, 5))
    pos, q, cls = [], [], []
    for _ in range(n):
        mode = draw(st.integers(0, 7))
        a = cents[0]
        b = cents[min(1, len(cents) - 1)]
        if mode == 0:
            p, c = list(a), "on-centre"
        elif mode == 1:
            p, c = list(b), "on-centre"
        elif mode == 2:
            p, c = [(x + y) / 2 for x, y in zip(a, b)], "midpoint"
        elif mode >= 6 and shells is not None:
            # placed so that the Boys argument p |P - C|^2 of a drawn primitive pair takes a drawn value (log-uniform
            # 0.01..300): medium-range arguments are where series / asymptotic switch-overs of Boys functions live
            sa, sb = shells[0], shells[min(1, len(shells) - 1)]
            ea = sa["exps"][draw(st.integers(0, len(sa["exps"]) - 1))]
            eb = sb["exps"][draw(st.integers(0, len(sb["exps"]) - 1))]
            pp = ea + eb
            P = [(ea * x + eb * y) / pp for x, y in zip(sa["coord"], sb["coord"])]
            xarg = draw(gen.log_uniform(0.01, 300.0))
            dist = (xarg / pp) ** 0.5
            u = [draw(st.floats(-1, 1, allow_nan=False)) for _ in range(3)]
            un = sum(t * t for t in u) ** 0.5
            if un < 1e-2:
                u, un = [0.0, 0.0, 1.0], 1.0
            p = [x + dist * t / un for x, t in zip(P, u)]
            c = "boys-target"
        elif mode == 5:
            p = list(a)
            ax = draw(st.integers(0, 2))
            p[ax] += draw(st.sampled_from([1e-10, 1e-8, 1e-6, 1e-5, 1e-4, -1e-6]))
            c = "almost-on-centre"
        elif mode == 3:
            base = cents[draw(st.integers(0, len(cents) - 1))]
            p, c = [x + draw(st.floats(-1.5, 1.5, allow_nan=False)) for x in base], "near"
        else:
            r = draw(gen.log_uniform(10.0, 100.0))
            ax = draw(st.integers(0, 2))
            p = list(a)
            p[ax] += r if draw(st.booleans()) else -r
            p[(ax + 1) % 3] += draw(st.floats(-3, 3, allow_nan=False))
            c = "far"
        pos.append([float(x) for x in p])
        mag = draw(gen.log_uniform(0.1, 100.0))
        q.append(mag if draw(st.booleans()) else -mag)
        cls.append(c)
    return pos, q, cls


@st.composite
def case_st(draw, la, lb):
    shells = draw(gen.basis(nmin=2, nmax=3, lmax=4, first_ls=(la, lb), kmax=3).flatmap(gen.with_prefactor_distance))
    pos, q, cls = draw(charges([s["coord"] for s in shells], shells))
    ints = draw(st.integers(0, 5)) == 0
    if ints:  # integer-typed coordinate and charge arrays are documented input
        pos = [[float(round(x)) for x in p] for p in pos]
        q = [float(round(v)) or 1.0 for v in q]
        cls = ["int-array"] * len(cls)
    return {"shells": shells, "coords": pos, "charges": q, "ccls": cls, "ints": ints}


@st.composite
def extreme_st(draw, la, lb):
    """One diffuse and one tight uncontracted shell at the two ends of the exponent range, in either order, placed at a drawn
    Gaussian-product prefactor 1 .. 1e-6: the recursions transfer angular momentum over the longest distance the domain allows."""
    lo = 0.02 if draw(st.integers(0, 2)) else draw(gen.log_uniform(0.02, 0.06))
    hi_a, hi_b = gen.exp_cap(la), gen.exp_cap(lb)
    diffuse_first = draw(st.booleans())
    hi = hi_b if diffuse_first else hi_a
    tight = hi if draw(st.integers(0, 2)) else draw(gen.log_uniform(hi / 4, hi))
    ea, eb = (lo, tight) if diffuse_first else (tight, lo)
    types = [draw(st.sampled_from(["cartesian", "spherical"])) for _ in range(2)]
    sa = {"l": la, "coord": [0.0, 0.0, 0.0], "exps": [ea], "coeffs": [[1.0]], "type": types[0]}
    sb = {"l": lb, "coord": [0.0, 0.0, 0.0], "exps": [eb], "coeffs": [[-1.0 if draw(st.booleans()) else 1.0]], "type": types[1]}
    mu = ea * eb / (ea + eb)
    k = draw(st.floats(0.3, 6.0, allow_nan=False))
    r = (k * 2.302585092994046 / mu) ** 0.5
    u = [draw(st.floats(-1, 1, allow_nan=False)) for _ in range(3)]
    un = sum(t * t for t in u) ** 0.5
    if un < 1e-2 or draw(st.booleans()):
        u, un = [[1.0, 0.0, 0.0], [0.0, 1.0, 0.0], [0.0, 0.0, 1.0]][draw(st.integers(0, 2))], 1.0
    sb["coord"] = [r * t / un for t in u]
    sb["placed"] = "prefactor-1e-%d" % int(k)
    wide = draw(st.integers(0, 2)) == 0
    one_wide = (not wide) and draw(st.integers(0, 3)) == 0
    if one_wide:
        # one shell with a single primitive between the extremes, the other with a diffuse and a tight primitive
        w_, m_ = (sa, sb) if draw(st.booleans()) else (sb, sa)
        hi_ = hi_a if w_ is sa else hi_b
        # half of the time near the geometric mean of the two extremes (as far from both as a single primitive can be)
        mid = (lo * hi_) ** 0.5 * draw(st.floats(0.9, 1.1, allow_nan=False)) if draw(st.booleans()) else draw(gen.log_uniform(0.1, 2.0))
        w_["exps"] = [lo, hi_] if draw(st.booleans()) else [hi_, lo]
        w_["coeffs"] = [[draw(gen.log_uniform(0.2, 3.0))], [draw(gen.log_uniform(0.2, 3.0))]]
        m_["exps"] = [mid]
    if wide:
        # both shells carry ONE contraction with a diffuse and a tight primitive (either order of the primitives): the pairs
        # (diffuse, tight) and (tight, diffuse) are then both present, whichever shell is listed first
        for s_, hi_ in ((sa, hi_a), (sb, hi_b)):
            t_ = hi_ if draw(st.booleans()) else draw(gen.log_uniform(hi_ / 4, hi_))
            ex = [lo, t_] if draw(st.booleans()) else [t_, lo]
            s_["exps"] = ex
            s_["coeffs"] = [[draw(gen.log_uniform(0.2, 3.0))], [draw(gen.log_uniform(0.2, 3.0))]]
    shells = [sa, sb]
    pos, q, cls = draw(charges([s["coord"] for s in shells], shells))
    if draw(st.booleans()):  # the first charge sits on one of the two centres
        pos[0], cls[0] = list(shells[draw(st.integers(0, 1))]["coord"]), "on-centre"
    return {"shells": shells, "coords": pos, "charges": q, "ccls": cls, "ints": False,
            "extreme": "wide-contractions" if wide else "one-wide-contraction" if one_wide else ("diffuse-first" if diffuse_first else "tight-first")}


def judge(case):
    shells = case["shells"]
    v = Verdict(classes=["l%d-l%d" % (shells[0]["l"], shells[1]["l"])] + ["charge-" + c for c in case.get("ccls", [])])
    if case.get("extreme"):
        v.classes.append(case["extreme"])
    C = np.array(case["coords"], dtype=float).reshape(-1, 3)
    q = np.array(case["charges"], dtype=float)
    if case.get("cart_reversed"):
        # shells of a subclass that lists its Cartesian components in reverse order (the way from_iodata customises shells);
        # the oracle lists them the same way
        from vf.props.c09 import conv_class
        from vf.ref import r4
        R = [r3.ShellRef(d, cart=r4.default_cart(d["l"])[::-1]) for d in shells]
        bas = [mk_shell(d, cls=conv_class(r4.default_cart(d["l"])[::-1], r4.default_sph(d["l"]))) for d in shells]
        v.classes.append("subclass-cartesian-order")
    else:
        R = r3.refs(shells)
        bas = mk_basis(shells)
    ref = r3.two_index(R, R, lambda a, b: r2.point_charge_block(a, b, C, q))
    dg = np.sqrt(np.abs(np.einsum("aan->an", ref)))
    scale = dg[:, None, :] * dg[None, :, :]
    off = r3.offsets(R)
    for i in range(len(R)):
        for j in range(i + 1, len(R)):
            if (np.abs(ref) / scale)[off[i]:off[i + 1], off[j]:off[j + 1]].max() > 1e-6:
                v.nontrivial = True
    # Boys-argument decades reached
    for s in R[:2]:
        for c in C:
            T = 2 * s.exps.max() * np.sum((s.A - c) ** 2)
            v.classes.append("boysT-0" if T == 0 else "boysT-1e%d" % int(np.clip(np.floor(np.log10(T)), -3, 9)))
    Cl, ql = (C.astype(int), q.astype(int)) if case.get("ints") else (C, q)
    got = lib(point_charge_integral, bas, Cl, ql)
    if got.shape != ref.shape:
        return v.fail(f"point_charge_integral shape {got.shape}, expected {ref.shape}")
    # block level first (Cartesian, un-normalised) so that the arbiter can re-judge single elements
    for (i, j) in ((0, 1), (1, 0)):
        blk = lib(PointChargeIntegral.construct_array_contraction, bas[i], bas[j], C, q)
        want = r2.point_charge_block(R[i], R[j], C, q, normalised=False)
        if blk.shape != want.shape:
            return v.fail(f"construct_array_contraction shape {blk.shape}, expected {want.shape}")
        da = np.sqrt(np.abs(np.einsum("mcmcn->mcn", r2.point_charge_block(R[i], R[i], C, q)))) / R[i].cn[:, :, None]
        db = np.sqrt(np.abs(np.einsum("mcmcn->mcn", r2.point_charge_block(R[j], R[j], C, q)))) / R[j].cn[:, :, None]
        bs = da[:, :, None, None, :] * db[None, None, :, :, :]
        d, at = maxdev(blk, want, bs)
        v.info["block_dev"] = max(v.info.get("block_dev", 0.0), d)
        if not d <= TOL:
            ma, ca, mb, cb, n = at
            exact = r2.point_charge_element_mp(R[i], ma, ca, R[j], mb, cb, C[n], q[n]) / (R[i].cn[ma, ca] * R[j].cn[mb, cb])
            d2 = abs(blk[at] - exact) / bs[at]
            v.classes.append("arbitrated")
            if d2 > TOL:
                return v.fail(f"PointChargeIntegral.construct_array_contraction(s{i},s{j}) deviates by {d2:.3e} of "
                              f"sqrt(V_aa V_bb) at {at} (confirmed at 40 digits; float oracle said {d:.3e})")
    # stage (ii) on a sample of PASSING elements: the float oracle itself is re-judged at 40 digits (an oracle that is
    # wrong in the permissive direction would otherwise go unnoticed)
    h = int(case_hash(case), 16)
    if h % (4 if os.environ.get("VERIF_TIER") == "thorough" else 16) == 0:
        want = r2.point_charge_block(R[0], R[1], C, q, normalised=False)
        at = np.unravel_index(int(np.argmax(np.abs(want))), want.shape)
        ma, ca, mb, cb, n = (int(x) for x in at)
        exact = r2.point_charge_element_mp(R[0], ma, ca, R[1], mb, cb, C[n], q[n]) / (R[0].cn[ma, ca] * R[1].cn[mb, cb])
        da0 = np.sqrt(np.abs(np.einsum("mcmcn->mcn", r2.point_charge_block(R[0], R[0], C, q)))) / R[0].cn[:, :, None]
        db0 = np.sqrt(np.abs(np.einsum("mcmcn->mcn", r2.point_charge_block(R[1], R[1], C, q)))) / R[1].cn[:, :, None]
        od = abs(want[at] - exact) / (da0[ma, ca, n] * db0[mb, cb, n])
        v.info["oracle_vs_mp"] = od
        v.classes.append("arbitrated-sample")
        if od > 1e-9:
            raise RuntimeError(f"float oracle R2 disagrees with its 40-digit instantiation by {od:.3e} (oracle defect, not a finding)")
    d, at = maxdev(got, ref, scale)
    v.info["rel_dev"] = d
    if not d <= TOL:
        return v.fail(f"point_charge_integral deviates by {d:.3e} of sqrt(|V_aa V_bb|) at {at} (charge {q[at[2]]:.3g} at {C[at[2]].tolist()})")
    # charges stored in other numeric dtypes (atomic numbers read from a file: unsigned or 32-bit integers, float32): the documented
    # dtypes are int/float; anything else is either rejected or gives the numbers of the float64 array of the same values
    if int(case_hash(case), 16) % 3 == 0:
        zi = np.maximum(1, np.minimum(100, np.rint(np.abs(q)))).astype(int)
        base = lib(point_charge_integral, bas, C, zi.astype(float))
        for dt in (np.uint8, np.uint32, np.int32, np.float32):
            try:
                alt = point_charge_integral(bas, C, zi.astype(dt))
            except Exception:  # noqa: BLE001 - rejecting the dtype is the documented alternative
                v.classes.append("charge-dtype-rejected")
                continue
            v.classes.append("charge-dtype-accepted")
            d, at = maxdev(alt, base, np.abs(base) + scale)
            if not d <= 1e-6:
                return v.fail(f"point_charge_integral with charges {zi.tolist()} stored as {np.dtype(dt).name} differs from the float64 "
                              f"result by {d:.3e} at {at} (got {alt[at]!r}, float64 {base[at]!r})")
    nea = lib(nuclear_electron_attraction_integral, bas, Cl, ql)
    d, at = maxdev(nea, got.sum(axis=2), np.abs(got).sum(axis=2) + 1e-300)
    if not d <= 1e-13:
        return v.fail(f"nuclear_electron_attraction_integral is not the sum over charges: {d:.3e} at {at}")
    d, at = maxdev(nea, ref.sum(axis=2), scale.sum(axis=2))
    if not d <= TOL:
        return v.fail(f"nuclear_electron_attraction_integral deviates by {d:.3e} at {at}")
    return v


def shards(tier):
    n = 4 if tier == "quick" else 120
    return [{"id": f"{la}{lb}", "la": la, "lb": lb, "n": n, "cost": n * (1 + la + lb) ** 2}
            for la in range(6) for lb in range(6)]


def shards_extreme(tier):
    def n(la, lb):  # equal angular momenta: neither shell is preferred by the L_a >= L_b rule
        return (6 if la == lb else 2) if tier == "quick" else (150 if la == lb else 40)
    return [{"id": f"{la}{lb}", "la": la, "lb": lb, "n": n(la, lb), "cost": n(la, lb) * (1 + la + lb) ** 2}
            for la in range(6) for lb in range(6)]


def corner_cases(shard):
    """Enumerated corners for pairs of EQUAL angular momentum l = 2..5 (the L_a >= L_b rule does not decide): every combination of
    {diffuse, tight, single primitive at the geometric mean, diffuse+tight contraction} on the two shells, 3 separations."""
    l = shard["l"]
    lo, hi = 0.02, gen.exp_cap(l)
    kinds = {"diffuse": [lo], "tight": [hi], "middle": [(lo * hi) ** 0.5], "wide": [lo, hi], "wide-reversed": [hi, lo]}
    for ka, ea in kinds.items():
        for kb, eb in kinds.items():
            for kpref in (1.0, 2.5, 4.0):
                mu = min(ea) * min(eb) / (min(ea) + min(eb))
                r = (kpref * 2.302585092994046 / mu) ** 0.5
                B = [0.0, 0.6 * r, 0.8 * r]
                sa = {"l": l, "coord": [0.0, 0.0, 0.0], "exps": ea, "coeffs": [[1.0]] * len(ea), "type": "cartesian"}
                sb = {"l": l, "coord": B, "exps": eb, "coeffs": [[0.7]] * len(eb), "type": "cartesian"}
                yield {"shells": [sa, sb], "coords": [[0.0, 0.0, 0.0], B, [0.0, 0.3 * r, 0.4 * r]], "charges": [1.0, -2.0, 3.0],
                       "ccls": ["on-centre", "on-centre", "midpoint"], "ints": False, "extreme": "corner-%s-%s" % (ka, kb),
                       "cart_reversed": kpref == 2.5}


def shards_corner(tier):
    return [{"id": f"l{l}", "l": l, "cost": 75 * (1 + 2 * l) ** 2} for l in (2, 3, 4, 5)]


SUBCHECKS = [SubCheck("corners", judge, shards_corner, cases=corner_cases),
             SubCheck("pointcharge", judge, shards, strategy=lambda sh: case_st(sh["la"], sh["lb"])),
             SubCheck("extreme-ratio", judge, shards_extreme, strategy=lambda sh: extreme_st(sh["la"], sh["lb"]))]
EXHAUSTIVE = {"l_pairs": "all 36 ordered (l_a,l_b) in 0..5",
              "corners": "equal l = 2..5: all 25 combinations of {diffuse, tight, middle, wide, wide-reversed} exponent sets x 3 separations"}
EXPECTED_CLASSES = ["extreme-ratio/diffuse-first", "extreme-ratio/tight-first", "extreme-ratio/wide-contractions", "pointcharge/charge-on-centre", "pointcharge/charge-almost-on-centre", "pointcharge/charge-boys-target", "pointcharge/charge-far", "pointcharge/boysT-1e1", "pointcharge/boysT-1e4"]
