"""C04 - electron-repulsion integrals exact in both index conventions."""
import itertools
import os

import numpy as np
from hypothesis import strategies as st

from vf import gen
from vf.core import Verdict, case_hash, lib, maxdev, mk_basis, mk_shell, nfunc, sh
from vf.ref import r2, r3
from vf.run import SubCheck

from gbasis.integrals.electron_repulsion import ElectronRepulsionIntegral, electron_repulsion_integral

RULE = ("(i) all 256 quartets (l1..l4) in 0..3^4 enumerated at block level (ElectronRepulsionIntegral."
        "construct_array_contraction), exponents log-uniform 0.1-10 (0.2-5 with an f shell), K 1-3, M 1-2, geometry "
        "class coincident / collinear / general drawn by Hypothesis, 30 % of the quartets with ONE contraction spanning the exponent range on "
        "all four shells; (i-c) enumerated corners: every assignment of {diffuse, tight, diffuse+tight} exponent sets at the ends of the "
        "range to the four shells for six l patterns (dddd, ffff, fdfd, ffdd, ddff, pffp) and two geometries (972 cases; the quick tier takes every fourth); (i-b) heavy quartets: l 0-3, primitive counts 1-10 per shell "
        "(uneven) chosen so that the recursion work space (L+1)^3 (L_ket+1)^3 K1K2K3K4 falls in drawn bands 2^18..2^25.4, at block level "
        "and through the public function on the two heaviest shells; (ii) whole-basis calls on 2-3 shells with every "
        "Cartesian/spherical assignment, both notations, with and without transformation; (iii) a fixed, keyed list of "
        "realistic ill-conditioned quartets (tight s/p pairs incl. the tightest primitives of cc-pVDZ C and ANO-RCC O "
        "against diffuse p/d/f pairs, 1-3 centres, both bra/ket orientations).  Oracle: McMurchie-Davidson (R2), "
        "tolerance 1e-6*sqrt((ab|ab)(cd|cd)) with oracle Schwarz factors; float-oracle deviations are confirmed at 40 "
        "digits before they count.  Non-trivial: not all four shells s, and non-coincident or l-sum >= 2.")
ASSUMPTIONS = ["reference integrals from vf/ref R2 (selftest: mpmath, closed (ss|ss), HORTON)",
               "accuracy bound sampled for random exponents within 0.1-10; ill-conditioned combinations decided on the fixed list only"]
TOL = 1e-6


# ---------------------------------------------------------------------------------------------
def schwarz(sa, sb):
    """sqrt((ab|ab)) per (ma,ca,mb,cb), normalised Cartesian."""
    g = r2.eri_block(sa, sb, sa, sb)
    return np.sqrt(np.abs(np.einsum("manbmanb->manb", g)))


def judge_block(v, shells4, label=None, sample=False):
    R = [r3.ShellRef(d, ctype="cartesian") for d in shells4]
    cont = [mk_shell(d) for d in shells4]
    got = lib(ElectronRepulsionIntegral.construct_array_contraction, *cont)
    want = r2.eri_block(*R)  # normalised
    if got.shape != want.shape:
        return v.fail(f"construct_array_contraction shape {got.shape}, expected {want.shape}")
    norm = (R[0].cn[:, :, None, None, None, None, None, None] * R[1].cn[None, None, :, :, None, None, None, None]
            * R[2].cn[None, None, None, None, :, :, None, None] * R[3].cn[None, None, None, None, None, None, :, :])
    gotn = got * norm
    q1, q2 = schwarz(R[0], R[1]), schwarz(R[2], R[3])
    scale = q1[:, :, :, :, None, None, None, None] * q2[None, None, None, None, :, :, :, :]
    d, at = maxdev(gotn, want, scale + FLOOR / TOL)
    v.info["schwarz_dev"] = max(v.info.get("schwarz_dev", 0.0), d)
    if sample:
        at2 = tuple(int(x) for x in np.unravel_index(int(np.argmax(np.abs(want))), want.shape))
        ex2 = r2.eri_element_mp(R, at2[0::2], at2[1::2])
        od = abs(want[at2] - ex2) / (scale[at2] + FLOOR / TOL)
        v.info["oracle_vs_mp"] = max(v.info.get("oracle_vs_mp", 0.0), od)
        v.classes.append("arbitrated-sample")
        if od > 1e-9:
            raise RuntimeError(f"float oracle R2 disagrees with its 40-digit instantiation by {od:.3e} (oracle defect, not a finding)")
    if not d <= TOL:
        exact = r2.eri_element_mp(R, at[0::2], at[1::2])
        d2 = abs(gotn[at] - exact) / (scale[at] + FLOOR / TOL)
        v.classes.append("arbitrated")
        if d2 > TOL:
            return v.fail(f"ERI block {label or [s['l'] for s in shells4]} deviates by {d2:.3e} of the Schwarz scale at {at} "
                          f"(confirmed at 40 digits): got {gotn[at]!r}, exact {exact!r}", key=label)
    return None


# ---- (i) all 256 quartets -----------------------------------------------------------------
@st.composite
def quartet_st(draw, ls, kmax):
    lo, hi = (0.2, 5.0) if max(ls) >= 3 else (0.1, 10.0)
    geo = draw(st.sampled_from(["coincident", "collinear", "general"]))
    if geo == "coincident":
        c = [draw(gen.coordinate(2.0)) for _ in range(3)]
        cs = [c] * 4
    elif geo == "collinear":
        base = [draw(gen.coordinate(2.0)) for _ in range(3)]
        ax = draw(st.integers(0, 3))
        dirn = [[1, 0, 0], [0, 1, 0], [0, 0, 1], [draw(st.floats(-1, 1, allow_nan=False)) for _ in range(3)]][ax]
        cs = [[b + draw(st.floats(-2, 2, allow_nan=False)) * 0 + t * d for b, d in zip(base, dirn)]
              for t in [draw(st.floats(-2, 2, allow_nan=False)) for _ in range(4)]]
    else:
        cs = draw(gen.centres(4, p_same=0.2, halves=(0.5, 2.0)))
    shells = [draw(gen.shell(l, c, kmax=kmax, mmax=2, types=("cartesian",), exp_lo=lo, exp_hi=hi)) for l, c in zip(ls, cs)]
    shells = draw(same_contraction(shells, lo, hi))
    return {"shells": shells, "geo": geo}


@st.composite
def same_contraction(draw, shells, lo, hi, p=0.3):
    """With probability p give all shells the exponents and coefficients of one contraction that spans the exponent range
    ("the same element on every atom"; tight and diffuse primitives then meet in the bra AND in the ket, whatever the orientation)."""
    if draw(st.floats(0, 1, allow_nan=False)) > p:
        return shells
    k = draw(st.integers(2, 3))
    ex = [lo if draw(st.booleans()) else draw(gen.log_uniform(lo, 2 * lo))]
    if k == 3:
        ex.append(draw(gen.log_uniform(lo, hi)))
    ex.append(hi if draw(st.booleans()) else draw(gen.log_uniform(hi / 2, hi)))
    m = draw(st.integers(1, 2))
    co = [[draw(gen.coefficient()) for _ in range(m)] for _ in range(k)]
    out = []
    for s_ in shells:
        c2, rep = gen.repair_cancellation(s_["l"], ex, co)
        out.append(dict(s_, exps=list(ex), coeffs=c2, same_contraction=True))
    return out


def judge_quartet(case):
    shells = case["shells"]
    ls = [s["l"] for s in shells]
    v = Verdict(classes=["geo-" + case.get("geo", "?"), "lsum-%d" % sum(ls)])
    coinc = all(s["coord"] == shells[0]["coord"] for s in shells)
    v.nontrivial = sum(ls) > 0 and (not coinc or sum(ls) >= 2)
    if ls[2] + ls[3] >= 2:
        v.classes.append("ket-l>=2")
    if shells[0].get("same_contraction"):
        v.classes.append("same-contraction")
    h = int(case_hash(case), 16)
    judge_block(v, shells, sample=h % (4 if os.environ.get("VERIF_TIER") == "thorough" else 24) == 0 and sum(ls) <= 8)
    return v


def shards_quartets(tier):
    n, kmax = (2, 2) if tier == "quick" else (20, 3)
    out = []
    for ls in itertools.product(range(4), repeat=4):
        out.append({"id": "".join(map(str, ls)), "ls": list(ls), "n": n, "kmax": kmax, "cost": n * (1 + sum(ls)) ** 3})
    return out


# ---- (i-b) heavy quartets: many primitives x angular momentum (large recursion work space) --------------
def workspace(ls, ks):
    """Elements of the largest intermediate of a Head-Gordon-Pople evaluation, up to a constant: (L+1)^3 (L_ket+1)^3 prod K."""
    return (sum(ls) + 1) ** 3 * (ls[2] + ls[3] + 1) ** 3 * int(np.prod(ks))


@st.composite
def heavy_st(draw, lg_lo, lg_hi):
    """Quartets whose work space (L+1)^3 (L_ket+1)^3 K1 K2 K3 K4 is drawn log-uniformly between 2^lg_lo and 2^lg_hi: primitive
    counts up to 10 per shell (published contracted sets have 3-14), uneven counts, so that any evaluation in blocks or batches
    of primitives meets its remainder cases."""
    ls = [draw(st.sampled_from([1, 2, 0, 3])) for _ in range(4)]
    target = 2.0 ** draw(st.floats(lg_lo, lg_hi, allow_nan=False))
    ks = [1, 1, 1, 1]
    for _ in range(40):
        if workspace(ls, ks) >= target:
            break
        free = [i for i in range(4) if ks[i] < 10]
        if not free:
            break
        ks[free[draw(st.integers(0, len(free) - 1))]] += 1
    lo, hi = (0.2, 5.0) if max(ls) >= 3 else (0.1, 10.0)
    cs = draw(gen.centres(4, p_same=0.3, halves=(0.5, 2.0)))
    shells = [draw(gen.shell(l, c, kmin=k, kmax=k, mmax=1, types=("cartesian",), exp_lo=lo, exp_hi=hi))
              for l, k, c in zip(ls, ks, cs)]
    return {"shells": shells, "geo": "heavy"}


def judge_heavy(case):
    shells = case["shells"]
    ls = [s["l"] for s in shells]
    ks = [len(s["exps"]) for s in shells]
    w = workspace(ls, ks)
    v = Verdict(classes=["workspace-2^%d" % int(np.log2(max(w, 1))), "Kmax-%d" % max(ks), "lsum-%d" % sum(ls)])
    if len(set(ks)) > 1:
        v.classes.append("uneven-K")
    v.nontrivial = max(ks) >= 3
    judge_block(v, shells)
    if v.ok and sum(ls) > 0:
        # the same quartet through the public function (one basis of four shells would be 4^4 blocks; two shells suffice to place
        # the heavy shells in every position of some block)
        order = sorted(range(4), key=lambda i: -ks[i])[:2]
        two = [shells[i] for i in order]
        lmx, kmx = max(s_["l"] for s_ in two), max(len(s_["exps"]) for s_ in two)
        if workspace([lmx] * 4, [kmx] * 4) > 2 ** 25:
            v.classes.append("whole-skipped-too-large")
            return v
        v.classes.append("whole-two-heaviest")
        R = r3.refs(two)
        ref = r2.eri_full(R)
        dg = np.sqrt(np.abs(np.einsum("abab->ab", ref)))
        scale = dg[:, :, None, None] * dg[None, None, :, :] + FLOOR / TOL
        got = lib(electron_repulsion_integral, mk_basis(two), notation="chemist")
        d, at = maxdev(got, ref, scale)
        v.info["schwarz_dev_whole"] = d
        if not d <= TOL:
            return v.fail(f"electron_repulsion_integral on the two heaviest shells (K {[ks[i] for i in order]}) deviates by {d:.3e} "
                          f"of the Schwarz scale at {at}")
    return v


def shards_heavy(tier):
    # quick: one or two cases per band of work-space size 2^18 .. 2^25.4; thorough: 12 per band
    bands = [(18, 20), (20, 22), (22, 23), (23, 24), (24, 24.7), (24.7, 25.4)]
    n = 2 if tier == "quick" else 12
    return [{"id": f"{a}-{b}-{i}", "lo": a, "hi": b, "n": n, "cost": 600 * n}
            for a, b in bands for i in range(2 if tier == "quick" else 4)]


# ---- (i-c) enumerated corners of the exponent range ---------------------------------------------------------
CORNER_LS = [(2, 2, 2, 2), (3, 3, 3, 3), (3, 2, 3, 2), (3, 3, 2, 2), (2, 2, 3, 3), (1, 3, 3, 1)]
CORNER_GEO = {"two-atoms": ([0.0, 0.0, 0.0], [0.4, 1.1, 1.9], [0.0, 0.0, 0.0], [0.4, 1.1, 1.9]),
              "four-centres": ([0.0, 0.0, 0.0], [1.3, -0.4, 0.8], [-0.7, 1.6, 0.3], [0.5, 0.9, -1.7])}


def corner_cases(shard):
    """Every assignment of {diffuse, tight, diffuse+tight contraction} exponent sets (ends of the stated random range: 0.1/10, or 0.2/5
    with an f shell) to the four shells, for fixed l patterns and two geometries."""
    ls = CORNER_LS[shard["pattern"]]
    lo, hi = (0.2, 5.0) if max(ls) >= 3 else (0.1, 10.0)
    kinds = {"d": ([lo], [[1.0]]), "t": ([hi], [[1.0]]), "w": ([hi, lo], [[0.6], [0.9]])}
    n = 0
    for combo in itertools.product("dtw", repeat=4):
        for gname, geo in CORNER_GEO.items():
            n += 1
            if n % shard["of"] != shard["part"]:
                continue
            shells = [sh(l, c, kinds[k][0], kinds[k][1]) for l, c, k in zip(ls, geo, combo)]
            yield {"shells": shells, "geo": "corner", "label": "corner %s %s %s" % ("".join(map(str, ls)), "".join(combo), gname)}


def judge_corner(case):
    v = Verdict(nontrivial=True, classes=["pattern-" + case["label"].split()[1], "kinds-" + "".join(sorted(set(case["label"].split()[2])))])
    judge_block(v, case["shells"], label=case["label"].replace(" ", "_"))
    return v


def shards_corner(tier):
    of = 4 if tier == "quick" else 1
    parts = 6
    out = []
    for p in range(len(CORNER_LS)):
        for q in range(parts):
            # quick: every fourth case of each pattern; thorough: all 162
            out.append({"id": f"p{p}-{q}", "pattern": p, "of": of * parts, "part": q, "cost": 400})
    return out


# ---- (ii) whole-basis calls -----------------------------------------------------------------
@st.composite
def whole_st(draw, lmax):
    shells = draw(gen.basis(nmin=2, nmax=3, lmax=lmax, kmax=2, mmax=2, types=("cartesian",), exp_lo=0.1, exp_hi=10.0,
                            halves=(0.5, 2.0)))
    for s in shells:  # the property's random domain: 0.2..5 when an f shell is present
        if s["l"] >= 3 or max(x["l"] for x in shells) >= 3:
            s["exps"] = [min(5.0, max(0.2, e)) for e in s["exps"]]
            # clamping can make two exponents coincide: the cancellation rule of the domain is applied again
            s["coeffs"], rep = gen.repair_cancellation(s["l"], s["exps"], s["coeffs"])
            if rep:
                s["repaired"] = True
    types = [draw(st.sampled_from(gen.TYPES)) for _ in shells]
    for s, t in zip(shells, types):
        s["type"] = t
    n = sum(nfunc(s) for s in shells)
    T = draw(st.none() | gen.transform_matrix(n))
    return {"shells": shells, "transform": T}


def judge_whole(case):
    shells = case["shells"]
    types = [s["type"] for s in shells]
    v = Verdict(classes=["types-" + "".join(t[0] for t in types)])
    v.nontrivial = max(s["l"] for s in shells) >= 1
    R = r3.refs(shells)
    bas = mk_basis(shells)
    ref = r2.eri_full(R)
    dg = np.sqrt(np.abs(np.einsum("abab->ab", ref)))
    scale = dg[:, :, None, None] * dg[None, None, :, :] + FLOOR / TOL
    chem = lib(electron_repulsion_integral, bas, notation="chemist")
    phys = lib(electron_repulsion_integral, bas, notation="physicist")
    if chem.shape != ref.shape:
        return v.fail(f"electron_repulsion_integral shape {chem.shape}, expected {ref.shape}")
    d, at = maxdev(chem, ref, scale)
    v.info["schwarz_dev"] = d
    if not d <= TOL:
        return v.fail(f"electron_repulsion_integral(chemist) deviates by {d:.3e} of the Schwarz scale at {at}")
    d, at = maxdev(phys, np.transpose(chem, (0, 2, 1, 3)))
    if not d == 0.0:
        return v.fail(f"physicist array is not the chemist array with the middle indices exchanged: {d:.3e} at {at}")
    d, at = maxdev(phys, np.transpose(ref, (0, 2, 1, 3)), np.transpose(scale, (0, 2, 1, 3)))
    if not d <= TOL:
        return v.fail(f"electron_repulsion_integral(physicist) deviates by {d:.3e} at {at}")
    if case.get("transform") is not None:
        v.classes.append("transform")
        T = np.array(case["transform"], dtype=float)
        got = lib(electron_repulsion_integral, bas, transform=T, notation="chemist")
        want = np.einsum("ia,jb,kc,ld,abcd->ijkl", T, T, T, T, ref, optimize=True)
        aT = np.abs(T)
        sc = np.einsum("ia,jb,kc,ld,abcd->ijkl", aT, aT, aT, aT, scale, optimize=True)
        d, at = maxdev(got, want, sc)
        if not d <= TOL:
            return v.fail(f"electron_repulsion_integral(transform) deviates by {d:.3e} at {at}")
    return v


def shards_whole(tier):
    k, n, lmax = (16, 2, 2) if tier == "quick" else (48, 20, 3)
    return [{"id": i, "n": n, "lmax": lmax, "cost": 40 * n} for i in range(k)]


# ---- (iii) fixed list of realistic ill-conditioned quartets ------------------------------------
TIGHT = {
    "s1e3": (0, [1e3], [[1.0]]), "s1e4": (0, [1e4], [[1.0]]), "s1e5": (0, [1e5], [[1.0]]),
    "sCccpvdz": (0, [6665.0, 1000.0, 228.0], [[6.92e-4], [5.329e-3], [2.7077e-2]]),
    "sOano": (0, [105374.95, 15679.24, 3534.5447], [[1.2386e-4], [5.1201e-4], [2.15291e-3]]),
    "p1e3": (1, [1e3], [[1.0]]), "p1e4": (1, [1e4], [[1.0]]),
    "pOano": (1, [200.0, 46.533367, 14.621809], [[9.173e-4], [7.37714e-3], [3.483515e-2]]),
}
# complete contracted core+valence s shells of published general-contraction sets (tight AND diffuse primitives in one shell)
FULL = {
    "sCccpvdz-full": (0, [6665.0, 1000.0, 228.0, 64.71, 21.06, 7.495, 2.797, 0.5215, 0.1596],
                      [[6.92e-4, -1.46e-4], [5.329e-3, -1.154e-3], [2.7077e-2, -5.725e-3], [0.101718, -2.3312e-2],
                       [0.27474, -6.3955e-2], [0.448564, -0.149981], [0.285074, -0.127262], [1.5204e-2, 0.544529],
                       [-3.191e-3, 0.580496]]),
    "sOano-full": (0, [105374.95, 15679.24, 3534.5447, 987.36516, 315.97875, 111.65428, 42.699451, 17.395596, 7.438309, 3.222862,
                       1.253877, 0.495155, 0.191665, 0.067083],
                   [[0.00012386, -0.00002815], [0.00051201, -0.0001163], [0.00215291, -0.00049092], [0.00852844, -0.00194616],
                    [0.03018049, -0.0070053], [0.09099702, -0.02167814], [0.21779364, -0.05641213], [0.36862457, -0.1127053],
                    [0.33667073, -0.15891197], [0.0965763, -0.03355083], [0.00214452, 0.35319028], [0.00119435, 0.55341993],
                    [0.00053902, 0.23018391], [0.00021034, 0.01127267]]),
    "s-core+valence": (0, [8236.0, 79.27, 0.3643], [[0.7, 0.1], [0.5, -0.4], [0.05, 1.0]]),
}
DIFFUSE = {"p0.3": (1, [0.3], [[1.0]]), "d0.5": (2, [0.5], [[1.0]]), "d1.2": (2, [1.2], [[1.0]]),
           "f0.7": (3, [0.7], [[1.0]]), "f2.35": (3, [2.35], [[1.0]])}
# tight (core) pair always on one atom; the diffuse pair on the same atom, a second atom, or two other atoms
GEOS = {"1c": ([0, 0, 0], [0, 0, 0], [0, 0, 0], [0, 0, 0]),
        "2c": ([0, 0, 0], [0, 0, 0], [0.0, 0.7, 1.1], [0.0, 0.7, 1.1]),
        "3c": ([0, 0, 0], [0, 0, 0], [0.0, 0.7, 1.1], [-0.9, 0.2, 0.4])}
FLOOR = 1e-30  # absolute floor (normalised functions): elements of pairs whose overlap distribution underflows


def ill_list():
    out = []
    for tn, t in TIGHT.items():
        for dn, dsh in DIFFUSE.items():
            for gn, g in GEOS.items():
                for orient in ("tight-bra", "tight-ket"):
                    pair_t = [sh(t[0], g[0], t[1], t[2]), sh(t[0], g[1], t[1], t[2])]
                    pair_d = [sh(dsh[0], g[2], dsh[1], dsh[2]), sh(dsh[0], g[3], dsh[1], dsh[2])]
                    shells = pair_t + pair_d if orient == "tight-bra" else pair_d + pair_t
                    lab = f"({tn} {tn}|{dn} {dn}) {gn}" if orient == "tight-bra" else f"({dn} {dn}|{tn} {tn}) {gn}"
                    out.append({"label": lab, "shells": shells})
    # complete contracted s shells (tight + diffuse primitives) on ONE or on TWO atoms against polarisation shells elsewhere
    for fn, f in FULL.items():
        for dn in ("d0.5", "f0.7", "f2.35"):
            dsh = DIFFUSE[dn]
            for gn, g in (("ss-one-atom", ([0, 0, 0], [0, 0, 0], [0.0, 0.7, 1.1], [-0.9, 0.2, 0.4])),
                          ("ss-two-atoms", ([0, 0, 0], [0.0, 0.0, 2.1], [0.9, 0.7, 1.1], [0.9, 0.7, 1.1]))):
                for orient in ("tight-bra", "tight-ket"):
                    pair_t = [sh(f[0], g[0], f[1], f[2]), sh(f[0], g[1], f[1], f[2])]
                    pair_d = [sh(dsh[0], g[2], dsh[1], dsh[2]), sh(dsh[0], g[3], dsh[1], dsh[2])]
                    shells = pair_t + pair_d if orient == "tight-bra" else pair_d + pair_t
                    lab = f"({fn} {fn}|{dn} {dn}) {gn}" if orient == "tight-bra" else f"({dn} {dn}|{fn} {fn}) {gn}"
                    out.append({"label": lab, "shells": shells})
    # mixed tight/diffuse pairs and equal-l tight/diffuse quartets
    for tn, dn in (("s1e4", "f0.7"), ("sOano", "d0.5"), ("p1e3", "d1.2")):
        t, dsh = TIGHT[tn], DIFFUSE[dn]
        g = ([0, 0, 0], [0.0, 0.7, 1.1], [0, 0, 0], [-0.9, 0.2, 0.4])
        out.append({"label": f"({tn} {dn}|{tn} {dn}) 3c",
                    "shells": [sh(t[0], g[0], t[1], t[2]), sh(dsh[0], g[1], dsh[1], dsh[2]),
                               sh(t[0], g[2], t[1], t[2]), sh(dsh[0], g[3], dsh[1], dsh[2])]})
    for l, te, de in ((1, 1e3, 0.3), (2, 300.0, 0.5), (1, 1e4, 0.3), (2, 1e3, 1.2)):
        g = GEOS["3c"]
        for orient in (0, 1):
            a = [sh(l, g[0], [te], [[1.0]]), sh(l, g[1], [te], [[1.0]])]
            b = [sh(l, g[2], [de], [[1.0]]), sh(l, g[3], [de], [[1.0]])]
            out.append({"label": f"(l{l} {te:g} | l{l} {de:g}) 3c o{orient}", "shells": (a + b) if orient == 0 else (b + a)})
    return out


def judge_ill(case):
    v = Verdict(nontrivial=True, classes=["tight-diffuse" if "full" not in case["label"] and "core+valence" not in case["label"]
                                          else "contracted-core+valence"])
    judge_block(v, case["shells"], label=case["label"].replace(" ", "_"), sample=int(case_hash(case), 16) % 16 == 0)
    return v


def shards_ill(tier):
    n = len(ill_list())
    k = 32
    return [{"id": i, "lo": i * n // k, "hi": (i + 1) * n // k, "cost": 50} for i in range(k)]


SUBCHECKS = [
    SubCheck("quartets", judge_quartet, shards_quartets, strategy=lambda s: quartet_st(s["ls"], s["kmax"])),
    SubCheck("corners", judge_corner, shards_corner, cases=corner_cases),
    SubCheck("heavy", judge_heavy, shards_heavy, strategy=lambda s: heavy_st(s["lo"], s["hi"])),
    SubCheck("whole", judge_whole, shards_whole, strategy=lambda s: whole_st(s["lmax"])),
    SubCheck("illcond", judge_ill, shards_ill, cases=lambda s: ill_list()[s["lo"]:s["hi"]]),
]
EXHAUSTIVE = {"quartets": "all 256 (l1,l2,l3,l4) in 0..3^4",
              "corners": "3^4 exponent-set assignments x 6 l patterns x 2 geometries = 972 (quick tier: every fourth)", "illcond": "fixed list of %d keyed quartets" % len(ill_list())}

EXPECTED_CLASSES = ["quartets/same-contraction", "heavy/uneven-K"]
