"""C05 - basis-function values and arbitrary-order derivatives exact; two back-ends agree or reject."""
import numpy as np
from hypothesis import strategies as st

from vf import gen
from vf.core import present_points, Verdict, case_hash, lib, maxdev, mk_basis, nfunc
from vf.ref import r3, r5
from vf.run import SubCheck

from gbasis.evals.eval import evaluate_basis
from gbasis.evals.eval_deriv import EvalDeriv, evaluate_deriv_basis

RULE = ("Hypothesis draws bases of 1-4 generalized mixed-type shells (l 0..6), 1-8 points from the classes {on a centre, "
        "on an axis/plane through a centre (coordinate differences exactly 0), midpoint, near, far}, a subset of the 125 "
        "order triples (0..4)^3 (sub-check sweep125: all 125 for one basis), an optional transformation.  Oracle R5: "
        "coefficient-array differentiation P -> P' - 2 alpha u P; tolerance 1e-9*sum|terms| + 1e-14*(neighbourhood "
        "magnitude).  Sub-checks: evaluate_basis = order 0; general back-end vs R5; direct vs R5 and vs general for "
        "orders <= 2; direct with an order >= 3 or an unknown back-end name must raise or return the R5 numbers.  "
        "Non-trivial: a point with a coordinate difference exactly 0 to a centre carrying l >= 2, or total order >= 3.")
ASSUMPTIONS = ["reference values from vf/ref R5 (selftest: mpmath.diff of the explicit function)"]
ALL = [(i, j, k) for i in range(5) for j in range(5) for k in range(5)]
EXPECTED_CLASSES = ["values/point-on-centre", "values/point-on-plane", "values/direct-order>=3", "values/order-total>=3"]


@st.composite
def case_st(draw, sweep=False, lmax=6, npts=8):
    shells = draw(gen.basis(nmin=1, nmax=3 if sweep else 4, lmax=lmax))
    cents = [s["coord"] for s in shells]
    pts = draw(gen.points_near(cents, nmin=1, nmax=npts))
    orders = list(ALL) if sweep else draw(st.lists(st.sampled_from(ALL), min_size=2, max_size=5, unique=True))
    n = sum(nfunc(s) for s in shells)
    T = draw(st.none() | gen.transform_matrix(n))
    return {"shells": shells, "points": pts, "orders": [list(o) for o in orders], "transform": T}


def _cmp(v, what, got, val, tol):
    if got.shape != val.shape:
        return v.fail(f"{what}: shape {got.shape}, expected {val.shape}")
    d, at = maxdev(got, val, tol)
    v.info["dev_over_tol"] = max(v.info.get("dev_over_tol", 0.0), d)
    if not d <= 1.0:
        return v.fail(f"{what} deviates by {d:.3e} x tolerance at function {at[0]}, point {at[1]}: "
                      f"got {got[at]!r}, exact {val[at]!r}")
    return None


def judge(case):
    shells = case["shells"]
    pts = np.array(case["points"], dtype=float).reshape(-1, 3)
    v = Verdict()
    R = r3.refs(shells)
    bas = mk_basis(shells)
    T = None if case.get("transform") is None else np.array(case["transform"], dtype=float)
    on_centre = on_plane = False
    for s in shells:
        dz = (pts - np.array(s["coord"])[None, :]) == 0
        if dz.all(axis=1).any():
            on_centre = True
        if dz.any() and s["l"] >= 2:
            on_plane = True
    if on_centre:
        v.classes.append("point-on-centre")
    if on_plane:
        v.classes.append("point-on-plane")
    if T is not None:
        v.classes.append("transform")
    v.classes.append("lmax-%d" % max(s["l"] for s in shells))

    def ref(order):
        val, ab, nb = r5.eval_basis(R, pts_c, order)
        tol = 1e-9 * ab + 1e-14 * nb
        if T is not None:
            val, tol = T @ val, np.abs(T) @ tol
        return val, tol + 1e-250  # absolute floor: products that underflow (values below 1e-250) are not judged

    # the form in which the points arrive must not matter: C-contiguous, Fortran-ordered, a strided view of a wider array, an
    # integer-typed grid, a float32 grid (the oracle uses exactly the values the array denotes)
    pts, pts_c, form = present_points(pts, int(case_hash(case), 16))
    v.classes.append("points-" + form)
    val0, tol0 = ref((0, 0, 0))
    got = lib(evaluate_basis, bas, pts, transform=T)
    if _cmp(v, "evaluate_basis", got, val0, tol0):
        return v
    for o in case["orders"]:
        o = [int(x) for x in o]
        oa = np.array(o)
        val, tol = ref(o)
        tot = sum(o)
        if tot >= 3:
            v.classes.append("order-total>=3")
        v.nontrivial = v.nontrivial or on_plane or tot >= 3
        g = lib(evaluate_deriv_basis, bas, pts, oa, transform=T)
        if _cmp(v, f"evaluate_deriv_basis(general) order {o}", g, val, tol):
            return v
        if max(o) <= 2:
            dr = lib(evaluate_deriv_basis, bas, pts, oa, transform=T, deriv_type="direct")
            if _cmp(v, f"evaluate_deriv_basis(direct) order {o}", dr, val, tol):
                return v
            if _cmp(v, f"direct vs general back-end, order {o}", dr, g, 2 * tol):
                return v
            v.classes.append("direct-order<=2")
        else:
            v.classes.append("direct-order>=3")
            try:
                dr = evaluate_deriv_basis(bas, pts, oa, transform=T, deriv_type="direct")
            except Exception:  # noqa: BLE001 - rejecting the request is the documented alternative
                dr = None
                v.classes.append("direct-rejected")
            if dr is not None and _cmp(v, f"deriv_type='direct' cannot honour order {o} but answered with different numbers:", dr, val, tol):
                return v
    # the same requests through the class-level entry points (EvalDeriv(basis).construct_array_mix / _lincomb and the shell-level
    # EvalDeriv.construct_array_contraction): both back-ends, one order triple of the case; a request the specialised back-end
    # cannot honour must be rejected there too
    h = int(case_hash(case), 16)
    o = [int(x) for x in case["orders"][h % len(case["orders"])]]
    oa = np.array(o)
    val, tol = ref(o)
    types = [s["type"] for s in shells]
    ed = EvalDeriv(bas)
    for dt in ("general", "direct"):
        calls = [("construct_array_mix", lambda: ed.construct_array_mix(types, points=pts, orders=oa, deriv_type=dt), val, tol)]
        if T is not None:
            calls = [("construct_array_lincomb", lambda: ed.construct_array_lincomb(T, types, points=pts, orders=oa, deriv_type=dt), val, tol)]
        R0c = r3.ShellRef(dict(shells[0], type="cartesian"))
        bval, bab, bnb = r5.eval_basis([R0c], pts_c, o)
        n0 = 1.0 / R0c.cn.reshape(-1)[:, None]
        calls.append(("construct_array_contraction", lambda: EvalDeriv.construct_array_contraction(bas[0], pts, oa, deriv_type=dt).reshape(bval.shape),
                      bval * n0, (1e-9 * bab + 1e-14 * bnb) * n0 + 1e-250))
        for nm, fn, want, wtol in calls:
            if dt == "direct" and max(o) > 2:
                try:
                    out = fn()
                except Exception:  # noqa: BLE001 - rejecting the request is the documented alternative
                    v.classes.append("class-level-direct-rejected")
                    continue
                if _cmp(v, f"EvalDeriv.{nm}(deriv_type='direct') cannot honour order {o} but answered with different numbers:", out, want, wtol):
                    return v
            else:
                out = lib(fn)
                if _cmp(v, f"EvalDeriv.{nm}(deriv_type={dt!r}) order {o}", out, want, wtol):
                    return v
    v.classes.append("class-level-entry-points")
    # an unknown back-end name must not be answered with different numbers
    o = [int(x) for x in case["orders"][0]]
    val, tol = ref(o)
    for name in ("Direct", "hermite", ""):
        try:
            u = evaluate_deriv_basis(bas, pts, np.array(o), transform=T, deriv_type=name)
        except Exception:  # noqa: BLE001
            continue
        if _cmp(v, f"unknown deriv_type {name!r} answered with different numbers:", u, val, tol):
            return v
    return v


@st.composite
def many_points_st(draw):
    """A small basis evaluated on 1000-4100 points (an implementation that works in blocks must get every block right)."""
    shells = draw(gen.basis(nmin=1, nmax=2, lmax=3, kmax=2, mmax=2, halves=(0.5, 2.0)))
    npts = draw(st.sampled_from([1000, 1023, 1024, 1025, 2049, 4097]))
    scale = draw(st.floats(0.3, 3.0, allow_nan=False))
    ph = [draw(st.floats(0.1, 3.0, allow_nan=False)) for _ in range(3)]
    orders = draw(st.lists(st.sampled_from(ALL), min_size=1, max_size=2, unique=True))
    return {"shells": shells, "grid": {"n": npts, "scale": scale, "phase": ph}, "orders": [list(o) for o in orders], "transform": None}


def judge_many(case):
    g = case["grid"]
    i = np.arange(g["n"], dtype=float)
    c = np.array(case["shells"][0]["coord"])
    pts = c[None, :] + g["scale"] * np.stack([np.sin(i * g["phase"][0]), np.cos(i * g["phase"][1]), np.sin(i * g["phase"][2] + 1.0)], axis=1)
    pts[:: 97] = c  # every 97th point sits on the centre
    v = judge(dict(case, points=pts.tolist()))
    v.classes.append("points-%d" % g["n"])
    v.nontrivial = True
    return v


def shards_many(tier):
    k = 4 if tier == "quick" else 24
    return [{"id": i, "n": 1, "cost": 20} for i in range(k)]


def shards(tier):
    k, n = (16, 15) if tier == "quick" else (64, 120)
    return [{"id": i, "n": n, "npts": 8 if tier == "quick" else 50} for i in range(k)]


def shards_sweep(tier):
    k = 8 if tier == "quick" else 96
    return [{"id": i, "n": 1, "cost": 30} for i in range(k)]


SUBCHECKS = [
    SubCheck("values", judge, shards, strategy=lambda sh: case_st(npts=sh.get("npts", 8))),
    SubCheck("sweep125", judge, shards_sweep, strategy=lambda sh: case_st(sweep=True, lmax=4)),
    SubCheck("many-points", judge_many, shards_many, strategy=lambda sh: many_points_st()),
]
EXHAUSTIVE = {"sweep125": "all 125 order triples (0..4)^3 for each swept basis"}
