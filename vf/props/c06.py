"""C06 - density and density-derived fields equal their definitions; threshold/clip rule."""
import numpy as np
from hypothesis import strategies as st

from vf import gen
from vf.core import Verdict, lib, maxdev, mk_basis, nfunc, present_points, case_hash
from vf.ref import dens, r3
from vf.run import SubCheck

from gbasis.evals import density as gd

RULE = ("Hypothesis draws bases of 1-3 generalized mixed-type shells (l 0..4), a symmetric density matrix (PSD = B^T B "
        "of random rank, or indefinite), 1-8 points (on centre / plane / near / far), a subset of the order triples "
        "(0..4)^3, alpha in {0, +-1/2, 1, random}, a square or rectangular transformation (gamma sized K_orb), both "
        "derivative back-ends, and thresholds {0.9|v|, |v| exactly, 1.1|v|, default} relative to the most negative "
        "value v of the case.  Oracle: defining sums over gamma of products of R5 derivative values with the FULL "
        "Leibniz triple sum; tolerance 1e-9*sum|terms|.  Output-only invariants: Hessian symmetric, trace = Laplacian, "
        "PSD gamma => rho >= 0, t+ >= 0 and no exception at default threshold.  Non-trivial: indefinite gamma with a "
        "negative value bracketed by the thresholds, or total order >= 3, or a rectangular T.")
ASSUMPTIONS = ["reference values from vf/ref R5 + dens (defining sums); gamma symmetric as the API requires"]
ALL = [(i, j, k) for i in range(5) for j in range(5) for k in range(5)]
TOL = 1e-9
EXPECTED_CLASSES = ["fields/negative-density-bracketed", "fields/negative-ked-bracketed", "fields/rectangular-T",
                    "fields/psd", "fields/indefinite"]


@st.composite
def case_st(draw, lmax=4):
    shells = draw(gen.basis(nmin=1, nmax=3, lmax=lmax, kmax=3, mmax=2))
    cents = [s["coord"] for s in shells]
    pts = draw(gen.points_near(cents, nmin=1, nmax=8, far=30.0))
    n = sum(nfunc(s) for s in shells)
    T = draw(st.none() | gen.transform_matrix(n))
    k = n if T is None else len(T)
    g, psd = draw(gen.sym_matrix(k))
    orders = draw(st.lists(st.sampled_from(ALL), min_size=1, max_size=3, unique=True))
    alpha = draw(st.sampled_from([0, 0.5, -0.5, 1]) | st.floats(-2, 2, allow_nan=False, width=32))
    return {"shells": shells, "points": pts, "gamma": g, "psd": psd, "orders": [list(o) for o in orders],
            "alpha": alpha, "transform": T, "deriv_type": draw(st.sampled_from(["general", "direct"]))}


def _cmp(v, what, got, val, sc, tol=TOL):
    got = np.asarray(got)
    if got.shape != val.shape:
        return v.fail(f"{what}: shape {got.shape}, expected {val.shape}")
    d, at = maxdev(got, val, sc + 1e-300)
    v.info["rel_dev"] = max(v.info.get("rel_dev", 0.0), d)
    if not d <= tol:
        return v.fail(f"{what} deviates from its definition by {d:.3e} of sum|terms| at {at}: got {got[at]!r}, "
                      f"expected {val[at]!r}")
    return None


def threshold_rule(v, what, call, ref, sc, unclipped):
    """A negative value is returned as 0 when |value| <= threshold and raises when it is larger.

    ref/sc: oracle value and rounding scale; unclipped: the library's own unclipped numbers."""
    m = float(np.min(ref))
    i = int(np.argmin(ref))
    if not m < -100 * TOL * sc[i] or abs(m) < 1e-290:
        return False  # no clearly negative value (or a denormal one: 0.9|m| and 1.1|m| are then not distinct from |m|)
    for thr, expect in ((0.9 * abs(m), "raise"), (1.1 * abs(m), "clip")):
        try:
            out = call(thr)
            got = "clip"
        except ValueError:
            got = "raise"
        if got != expect:
            return v.fail(f"{what}: most negative value {m:.6e}, threshold {thr:.6e}: expected {expect}, got {got}") or True
        if got == "clip":
            if _cmp(v, f"{what} (threshold {thr:.3e})", out, np.clip(ref, 0.0, None), sc):
                return True
    # exact boundary with the library's own unclipped number: |v| == threshold -> returned as 0
    mu = float(np.min(unclipped))
    if mu < 0:
        try:
            out = call(abs(mu))
        except ValueError:
            return v.fail(f"{what}: negative value {mu!r} with threshold exactly {abs(mu)!r} (magnitude at most the "
                          f"threshold) raised instead of being returned as 0") or True
        if np.min(out) < 0:
            return v.fail(f"{what}: negative value returned un-clipped") or True
    return True


def judge(case):
    shells = case["shells"]
    pts = np.array(case["points"], dtype=float).reshape(-1, 3)
    # the array form of the points must not matter (layout, integer grid, float32 grid); the oracle uses the values it denotes
    pts_lib, pts, form = present_points(pts, int(case_hash({"s": case["shells"], "p": case["points"]}), 16))
    g = np.array(case["gamma"], dtype=float)
    T = None if case.get("transform") is None else np.array(case["transform"], dtype=float)
    dt = case["deriv_type"]
    v = Verdict(classes=["psd" if case["psd"] else "indefinite", dt, "points-" + form])
    R = r3.refs(shells)
    bas = mk_basis(shells)
    ncont = sum(s.nfun for s in R)
    if T is not None:
        v.classes.append("rectangular-T" if T.shape[0] != ncont else "square-T")
        if T.shape[0] != ncont:
            v.nontrivial = True
    dr = dens.DensRef(R, pts, g, T)
    kw = {"transform": T}

    # ---- density and its threshold rule
    rho, rs = dr.evaluate(dens.rho())
    orb = lib(__import__("gbasis.evals.eval", fromlist=["evaluate_basis"]).evaluate_basis, bas, pts_lib, transform=T)
    unclipped = lib(gd.evaluate_density_using_evaluated_orbs, g, orb)
    if _cmp(v, "evaluate_density_using_evaluated_orbs", unclipped, rho, rs):
        return v
    neg = threshold_rule(v, "evaluate_density", lambda t: gd.evaluate_density(g, bas, pts_lib, threshold=t, **kw), rho, rs, unclipped)
    if not v.ok:
        return v
    if neg:
        v.classes.append("negative-density-bracketed")
        v.nontrivial = True
    # default threshold
    m = float(np.min(rho))
    if m >= -0.5e-8 or m <= -1.5e-8:
        try:
            out = gd.evaluate_density(g, bas, pts_lib, **kw)
            if m <= -1.5e-8:
                return v.fail(f"evaluate_density returned although the density is {m:.3e} < -threshold (1e-8)")
            if _cmp(v, "evaluate_density", out, np.clip(rho, 0, None), rs):
                return v
            if case["psd"] and np.min(out) < 0:
                return v.fail("density negative for a PSD density matrix")
        except ValueError as e:
            if m >= -0.5e-8:
                return v.fail(f"evaluate_density raised at default threshold although min density is {m:.3e}: {e}")

    # ---- derivatives of any order (full Leibniz sum)
    for o in case["orders"]:
        ref, sc = dr.evaluate(dens.rho_deriv(o))
        got = lib(gd.evaluate_deriv_density, np.array(o), g, bas, pts_lib, deriv_type=dt, **kw)
        if _cmp(v, f"evaluate_deriv_density order {o} ({dt})", got, ref, sc):
            return v
        if sum(o) >= 3:
            v.nontrivial = True
            v.classes.append("order-total>=3")
    # reduced density matrix derivative, unsymmetric orders
    o1, o2 = case["orders"][0], case["orders"][-1]
    if dt == "general" or max(o1 + o2) <= 2:
        ref, sc = dr.D(o1, o2)
        got = lib(gd.evaluate_deriv_reduced_density_matrix, np.array(o1), np.array(o2), g, bas, pts_lib, deriv_type=dt, **kw)
        if _cmp(v, f"evaluate_deriv_reduced_density_matrix {o1},{o2}", got, ref, sc):
            return v

    # ---- gradient, Laplacian, Hessian
    grad = [dr.evaluate(dens.ddr(dens.rho(), i)) for i in range(3)]
    got = lib(gd.evaluate_density_gradient, g, bas, pts_lib, deriv_type=dt, **kw)
    if _cmp(v, "evaluate_density_gradient", got, np.stack([x[0] for x in grad], 1), np.stack([x[1] for x in grad], 1)):
        return v
    lap, ls = dr.evaluate(dens.laplacian())
    gl = lib(gd.evaluate_density_laplacian, g, bas, pts_lib, deriv_type=dt, **kw)
    if _cmp(v, "evaluate_density_laplacian", gl, lap, ls):
        return v
    hes = [[dr.evaluate(dens.ddr(dens.ddr(dens.rho(), i), j)) for j in range(3)] for i in range(3)]
    hv = np.array([[hes[i][j][0] for j in range(3)] for i in range(3)]).transpose(2, 0, 1)
    hs = np.array([[hes[i][j][1] for j in range(3)] for i in range(3)]).transpose(2, 0, 1)
    gh = lib(gd.evaluate_density_hessian, g, bas, pts_lib, deriv_type=dt, **kw)
    if _cmp(v, "evaluate_density_hessian", gh, hv, hs):
        return v
    d, at = maxdev(gh, np.swapaxes(gh, 1, 2), hs + 1e-300)
    if not d <= 2 * TOL:
        return v.fail(f"density Hessian not symmetric: {d:.3e} at {at}")
    d, at = maxdev(np.trace(gh, axis1=1, axis2=2), gl, ls + 1e-300)
    if not d <= 2 * TOL:
        return v.fail(f"trace of the density Hessian differs from the Laplacian by {d:.3e} at {at}")

    # ---- kinetic-energy densities
    ked, ks = dr.evaluate(dens.posdef_ked())
    unc = 0.5 * sum(lib(gd.evaluate_deriv_reduced_density_matrix, np.array(e), np.array(e), g, bas, pts_lib, deriv_type=dt, **kw)
                    for e in dens.E)
    neg = threshold_rule(v, "evaluate_posdef_kinetic_energy_density",
                         lambda t: gd.evaluate_posdef_kinetic_energy_density(g, bas, pts_lib, deriv_type=dt, threshold=t, **kw),
                         ked, ks, unc)
    if not v.ok:
        return v
    if neg:
        v.classes.append("negative-ked-bracketed")
        v.nontrivial = True
    m = float(np.min(ked))
    alpha = case["alpha"]
    alpha = int(alpha) if float(alpha).is_integer() else float(alpha)
    if m >= -0.25e-8 or m <= -3e-8:
        try:
            out = gd.evaluate_posdef_kinetic_energy_density(g, bas, pts_lib, deriv_type=dt, **kw)
            if m <= -3e-8:
                return v.fail(f"evaluate_posdef_kinetic_energy_density returned although t+ = {m:.3e} < -threshold")
            if _cmp(v, "evaluate_posdef_kinetic_energy_density", out, np.clip(ked, 0, None), ks):
                return v
            if case["psd"] and np.min(out) < 0:
                return v.fail("positive-definite kinetic energy density negative for a PSD density matrix")
            gk = gd.evaluate_general_kinetic_energy_density(g, bas, pts_lib, alpha, deriv_type=dt, **kw)
            if _cmp(v, f"evaluate_general_kinetic_energy_density alpha={alpha}", gk, np.clip(ked, 0, None) + alpha * lap,
                    ks + abs(alpha) * ls):
                return v
        except ValueError as e:
            if m >= -0.25e-8:
                return v.fail(f"kinetic-energy density raised at default threshold although min t+ is {m:.3e}: {e}")
    return v


@st.composite
def many_points_st(draw):
    case = draw(case_st(lmax=2))
    case["shells"] = case["shells"][:2]
    n = sum(nfunc(s) for s in case["shells"])
    case["transform"] = None
    case["gamma"], case["psd"] = draw(gen.sym_matrix(n, psd=True))
    case["orders"] = case["orders"][:1]
    case["grid"] = {"n": draw(st.sampled_from([1000, 1024, 1025, 2049])), "scale": draw(st.floats(0.3, 3.0, allow_nan=False)),
                    "phase": [draw(st.floats(0.1, 3.0, allow_nan=False)) for _ in range(3)]}
    case["points"] = []
    return case


def judge_many(case):
    g = case["grid"]
    i = np.arange(g["n"], dtype=float)
    c = np.array(case["shells"][0]["coord"])
    pts = c[None, :] + g["scale"] * np.stack([np.sin(i * g["phase"][0]), np.cos(i * g["phase"][1]), np.sin(i * g["phase"][2] + 1.0)], axis=1)
    v = judge(dict(case, points=pts.tolist()))
    v.classes.append("points-%d" % g["n"])
    v.nontrivial = True
    return v


def shards_many(tier):
    return [{"id": i, "n": 1, "cost": 30} for i in range(4 if tier == "quick" else 16)]


def shards(tier):
    k, n = (16, 12) if tier == "quick" else (64, 150)
    return [{"id": i, "n": n} for i in range(k)]


SUBCHECKS = [SubCheck("fields", judge, shards, strategy=lambda sh: case_st()),
             SubCheck("many-points", judge_many, shards_many, strategy=lambda sh: many_points_st())]
