"""C07 - multipole moments exact for every order and origin; origin-shift law."""
from math import comb

import numpy as np
from hypothesis import strategies as st

from vf import gen
from vf.core import Verdict, lib, maxdev, mk_basis
from vf.ref import r3
from vf.run import SubCheck

from gbasis.integrals.moment import Moment, moment_integral
from gbasis.integrals.overlap import overlap_integral

RULE = ("Shards enumerate the 25 ordered (l_a,l_b) pairs 0..4; Hypothesis draws a basis of 2-3 generalized mixed-type "
        "shells, an origin (on a centre / 1e-10..1e-4 off a centre / off centre / far up to 100 bohr), a list of 1-6 order triples from (0..4)^3 "
        "with repetition and in arbitrary sequence (thorough: a second sub-check sweeps all 125 triples per cell), an "
        "optional transformation matrix and a second origin.  Oracle: R1 three-factor integrals in list order, "
        "tolerance 1e-8*(<a|m^2|a><b|m^2|b>)^(1/4) (Cauchy-Schwarz scale, from the oracle, evaluated with |coefficients| so that it cannot cancel); order (0,0,0) = overlap; "
        "moments about a second origin = binomial combination of the library's own lower moments; the shell blocks of the first two "
        "shells (both orientations) element-wise at 1e-9 of the summed magnitudes of the terms of the element (oracle in conditioning "
        "mode) + 1e-13 of the natural scale (the unchanged library stays below 2e-6 of that).  Non-trivial: "
        "l>=2 with an order>=2, or >=3 triples not in sorted order, or an off-centre origin.")
ASSUMPTIONS = ["reference integrals from vf/ref R1/R3/R4"]
TOL = 1e-8
ALL = [(i, j, k) for i in range(5) for j in range(5) for k in range(5)]


@st.composite
def origin(draw, cents):
    mode = draw(st.integers(0, 4))
    base = cents[draw(st.integers(0, len(cents) - 1))]
    if mode == 4:  # almost on a centre
        o = list(base)
        ax = draw(st.integers(0, 2))
        o[ax] = o[ax] + draw(st.sampled_from([1e-10, 1e-8, 1e-7, 1e-6, 1e-5, 1e-4, -1e-6]))
        return o, "near-centre"
    if mode == 0:
        return list(base), "on-centre"
    if mode == 1:
        return [0.0, 0.0, 0.0], "coordinate-origin"
    if mode == 2:
        return [b + draw(st.floats(-3, 3, allow_nan=False)) for b in base], "off-centre"
    r = draw(gen.log_uniform(10.0, 100.0))
    ax = draw(st.integers(0, 2))
    o = list(base)
    o[ax] += r
    o[(ax + 1) % 3] += draw(st.floats(-5, 5, allow_nan=False))
    return o, "far"


@st.composite
def case_st(draw, la, lb, sweep=False):
    shells = draw(gen.basis(nmin=2, nmax=3, lmax=4, first_ls=(la, lb)))
    cents = [s["coord"] for s in shells]
    o, ocls = draw(origin(cents))
    o2, _ = draw(origin(cents))
    if sweep:
        orders = list(ALL)
    else:
        orders = draw(st.lists(st.sampled_from(ALL), min_size=1, max_size=6))
    n = sum(gen_n(s) for s in shells)
    T = draw(st.none() | gen.transform_matrix(n))
    return {"shells": shells, "origin": o, "origin2": o2, "orders": [list(x) for x in orders], "transform": T,
            "ocls": ocls}


def gen_n(s):
    l = s["l"]
    return len(s["coeffs"][0]) * ((l + 1) * (l + 2) // 2 if s["type"] == "cartesian" else 2 * l + 1)


def judge(case):
    shells = case["shells"]
    orders = np.array(case["orders"], dtype=int).reshape(-1, 3)
    C = np.array(case["origin"], dtype=float)
    v = Verdict(classes=["l%d-l%d" % (shells[0]["l"], shells[1]["l"]), "origin-" + case.get("ocls", "?")])
    R = r3.refs(shells)
    ref1 = r3.two_index(R, R, lambda a, b: r3.moment_block(a, b, C, orders))
    n = len(orders)
    # Cauchy-Schwarz scale <a|m^2|a> evaluated with |coefficients|: an upper bound that cannot cancel to zero
    Rabs = r3.abs_shells(R)
    dg = np.abs(r3.diag_index(Rabs, lambda a, b: r3.moment_block(a, b, C, 2 * orders))) ** 0.25
    scale = dg[:, None, :] * dg[None, :, :]
    bas = mk_basis(shells)
    got = lib(moment_integral, bas, C, orders)
    lmax = max(s["l"] for s in shells)
    unsorted = n >= 3 and [tuple(o) for o in orders] != sorted(tuple(o) for o in orders)
    v.nontrivial = bool((lmax >= 2 and orders.max() >= 2) or unsorted or case.get("ocls") in ("off-centre", "far", "near-centre"))
    if unsorted:
        v.classes.append("unsorted-list")
    if len({tuple(o) for o in orders}) < n:
        v.classes.append("duplicate-triples")
    v.classes.append("order-total-%d" % min(int(orders.sum(axis=1).max()), 6))
    if got.shape != ref1.shape:
        return v.fail(f"moment_integral shape {got.shape}, expected {ref1.shape}")
    d, at = maxdev(got, ref1, scale)
    v.info["rel_dev"] = d
    if not d <= TOL:
        return v.fail(f"moment_integral deviates by {d:.3e} of the Cauchy-Schwarz scale at {at} "
                      f"(order {orders[at[2]].tolist()})")
    # shell blocks in both orientations, element-wise on their own terms: 1e-9 of the summed magnitudes of the terms of an element
    # (conditioning scale of the oracle's expansion) + 1e-13 of the natural scale - C07 states no tolerance, and elements far
    # below the natural scale would otherwise never be looked at
    Rc = [r3.ShellRef(dict(sd, type="cartesian")) for sd in shells[:2]]
    Rca = r3.abs_shells(Rc)
    cs = [np.abs(np.einsum("mcmck->mck", r3.moment_block(t, t, C, 2 * orders, normalised=False))) ** 0.5 for t in Rca]
    for (i, j) in ((0, 1), (1, 0)):
        blk = lib(Moment.construct_array_contraction, bas[i], bas[j], C, orders)
        want = r3.moment_block(Rc[i], Rc[j], C, orders, normalised=False)
        if blk.shape != want.shape:
            return v.fail(f"Moment.construct_array_contraction shape {blk.shape}, expected {want.shape}")
        cond = r3.condition(r3.moment_block, Rc[i], Rc[j], C, orders, normalised=False)
        nat = cs[i][:, :, None, None, :] * cs[j][None, None, :, :, :]
        d, at = maxdev(blk, want, 1e-9 * cond + 1e-13 * nat + 1e-300)
        v.info["cond_dev"] = max(v.info.get("cond_dev", 0.0), d)
        if not d <= 1.0:
            return v.fail(f"Moment.construct_array_contraction(s{i},s{j}): element {at} = {want[at]!r} is off by {abs(blk[at] - want[at]):.3e}, "
                          f"{d:.2e} x (1e-9 of the summed magnitudes of its terms + 1e-13 of the natural scale)")
    # (0,0,0) reproduces the overlap
    S = lib(overlap_integral, bas)
    M0 = lib(moment_integral, bas, C, np.array([[0, 0, 0]]))[:, :, 0]
    d, at = maxdev(M0, S)
    if not d <= 1e-10:
        return v.fail(f"order (0,0,0) differs from overlap_integral by {d:.3e} at {at}")
    # transformation
    if case.get("transform") is not None:
        T = np.array(case["transform"], dtype=float)
        gt = lib(moment_integral, bas, C, orders, transform=T)
        want = np.einsum("ia,jb,abk->ijk", T, T, ref1)
        sc = np.einsum("ia,jb,abk->ijk", np.abs(T), np.abs(T), scale) + 1e-300
        d, at = maxdev(gt, want, sc)
        v.classes.append("transform")
        if not d <= TOL:
            return v.fail(f"moment_integral(transform) deviates by {d:.3e} at {at}")
    # origin shift: moments about C2 from the library's own lower moments about C
    C2 = np.array(case["origin2"], dtype=float)
    dvec = C - C2
    tgt = orders[: min(n, 3)]
    lower = sorted({(a, b, c) for o in tgt for a in range(o[0] + 1) for b in range(o[1] + 1) for c in range(o[2] + 1)})
    low = lib(moment_integral, bas, C, np.array(lower, dtype=int))
    at2 = lib(moment_integral, bas, C2, tgt)
    idx = {t: i for i, t in enumerate(lower)}
    # rounding scale of each lower library moment: its own Cauchy-Schwarz scale (from the oracle)
    dlow = np.abs(r3.diag_index(Rabs, lambda a, b: r3.moment_block(a, b, C, 2 * np.array(lower, dtype=int)))) ** 0.25
    for q, o in enumerate(tgt):
        want = 0.0
        mag = 0.0
        for a in range(o[0] + 1):
            for b in range(o[1] + 1):
                for c in range(o[2] + 1):
                    f = (comb(int(o[0]), a) * comb(int(o[1]), b) * comb(int(o[2]), c)
                         * dvec[0] ** (o[0] - a) * dvec[1] ** (o[1] - b) * dvec[2] ** (o[2] - c))
                    want = want + f * low[:, :, idx[(a, b, c)]]
                    k = idx[(a, b, c)]
                    mag = mag + np.abs(f) * (np.abs(low[:, :, k]) + dlow[:, None, k] * dlow[None, :, k])
        d, at = maxdev(at2[:, :, q], want, mag)
        v.info["shift_dev"] = max(v.info.get("shift_dev", 0.0), d)
        if not d <= 2 * TOL:
            return v.fail(f"origin-shift law violated by {d:.3e} (of sum |binomial factor|*scale of each lower moment) at {at} for order {o.tolist()}")
    return v


def shards(tier):
    n = 12 if tier == "quick" else 200
    return [{"id": f"{la}{lb}", "la": la, "lb": lb, "n": n, "cost": n * (1 + la + lb)}
            for la in range(5) for lb in range(5)]


def shards_sweep(tier):
    if tier == "quick":
        return [{"id": f"{la}{lb}", "la": la, "lb": lb, "n": 1, "sweep": True, "cost": 6} for la, lb in ((2, 1), (1, 3), (0, 4), (3, 3))]
    return [{"id": f"{la}{lb}", "la": la, "lb": lb, "n": 3, "sweep": True, "cost": 20} for la in range(5) for lb in range(5)]


SUBCHECKS = [
    SubCheck("moment", judge, shards, strategy=lambda sh: case_st(sh["la"], sh["lb"])),
    SubCheck("sweep125", judge, shards_sweep, strategy=lambda sh: case_st(sh["la"], sh["lb"], sweep=True)),
]
EXHAUSTIVE = {"l_pairs": "all 25 ordered (l_a,l_b) in 0..4", "sweep125": "all 125 order triples (0..4)^3 per swept cell"}
EXPECTED_CLASSES = ["moment/origin-near-centre", "moment/origin-far", "moment/unsorted-list", "moment/duplicate-triples", "moment/transform"]
