"""C08 - momentum and angular-momentum integrals exact and Hermitian for every ordered pair."""
import itertools

import numpy as np
from hypothesis import strategies as st

from vf import gen
from vf.core import Verdict, lib, maxdev, mk_basis, nfunc
from vf.ref import r3
from vf.run import SubCheck

from gbasis.integrals.angular_momentum import AngularMomentumIntegral, angular_momentum_integral
from gbasis.integrals.momentum import MomentumIntegral, momentum_integral

RULE = ("Shards enumerate the 25 ordered (l_a,l_b) pairs 0..4; Hypothesis draws a basis of 2-4 generalized mixed-type "
        "shells with centres away from the origin and an optional transformation; every ordering of the shells "
        "(<= 24) is enumerated inside the case.  Oracle: R1 integrals <a|-i d/dx|b> and <a|-i (r x grad)|b> for EVERY "
        "ordered pair (upper, lower and diagonal shell blocks independently), tolerance 1e-8*sqrt(T_aa T_bb) "
        "(momentum) and 1e-8*sqrt(<a|L^2-type scale|a> ...) taken as sqrt(T_aa T_bb)*(1+|r|_a)(1+|r|_b); "
        "Hermiticity A[a,b,c]=conj(A[b,a,c]); real part zero; block-permutation law under reordering.  Shell blocks (both "
        "orientations) are additionally judged element-wise at 1e-9 of the summed magnitudes of the terms of the element (conditioning "
        "scale of the oracle's expansion) + 1e-13 of the natural scale, so that digits lost on elements far below the natural scale "
        "are seen.  Sub-check extreme-ratio: a diffuse (0.02-0.3) and a tight (cap(l)/10 .. 300 cap(l)) shell in either order, placed "
        "at a Gaussian-product prefactor 0.5..1e-4.  "
        "Non-trivial: two shells on different centres with |P_ab| above 1e-6 of the scale and a shell with l>=1.")
ASSUMPTIONS = ["reference integrals from vf/ref R1/R3/R4", "C08 states no tolerance: every element is judged at 1e-8 of the natural scale, shell-block elements also at 1e-9 of their conditioning scale + 1e-13 of the natural scale (the unchanged library stays below 0.07 of that on 17 000 extreme pairs)"]
TOL = 1e-8
COND_TOL, COND_FLOOR = 1e-9, 1e-13  # block-level criterion for elements far below the natural scale (see judge)


@st.composite
def case_st(draw, la, lb):
    shells = draw(gen.basis(nmin=2, nmax=4, lmax=4, first_ls=(la, lb), halves=(0.5, 2.0, 5.0)))
    n = sum(nfunc(s) for s in shells)
    T = draw(st.none() | gen.transform_matrix(n))
    return {"shells": shells, "transform": T}


@st.composite
def extreme_st(draw, la, lb):
    """A diffuse and a tight shell (1-2 primitives each) in either order, a few bohr apart (placed at a drawn Gaussian-product
    prefactor 0.5 .. 1e-4), tight exponents up to 300 x the usual cap for that angular momentum (C08 states no exponent range):
    the pairs in which transferring angular momentum between the centres would cancel."""
    def exps(l, tight):
        k = draw(st.integers(1, 2))
        if tight:
            hi = min(1e5, gen.exp_cap(l) * 300.0)
            return [draw(gen.log_uniform(gen.exp_cap(l) / 10.0, hi)) for _ in range(k)]
        return [draw(gen.log_uniform(0.02, 0.3)) for _ in range(k)]
    diffuse_first = draw(st.booleans())
    ea, eb = exps(la, not diffuse_first), exps(lb, diffuse_first)
    ca = [[draw(gen.log_uniform(0.3, 2.0))] for _ in ea]
    cb = [[draw(gen.log_uniform(0.3, 2.0))] for _ in eb]
    mu = min(ea) * min(eb) / (min(ea) + min(eb))
    k = draw(st.floats(0.3, 4.0, allow_nan=False))
    r = (k * 2.302585092994046 / mu) ** 0.5
    u = [draw(st.floats(-1, 1, allow_nan=False)) for _ in range(3)]
    un = sum(t * t for t in u) ** 0.5
    if un < 1e-2:
        u, un = [0.6, -0.5, 0.62], (0.36 + 0.25 + 0.3844) ** 0.5
    A = [draw(st.floats(-3, 3, allow_nan=False)) for _ in range(3)]
    B = [a + r * t / un for a, t in zip(A, u)]
    types = [draw(st.sampled_from(["cartesian", "spherical"])) for _ in range(2)]
    shells = [{"l": la, "coord": A, "exps": ea, "coeffs": ca, "type": types[0]},
              {"l": lb, "coord": B, "exps": eb, "coeffs": cb, "type": types[1]}]
    return {"shells": shells, "transform": None, "extreme": "diffuse-first" if diffuse_first else "tight-first"}


def scales(R):
    """Per-function scales: sqrt(2 T_aa) for momentum; that times (1 + |centre| + spread) for r x p."""
    t = np.sqrt(2 * np.abs(r3.diag_index(R, r3.kinetic_block)))
    r2 = r3.diag_index(R, lambda a, b: r3.moment_block(a, b, np.zeros(3), [(2, 0, 0), (0, 2, 0), (0, 0, 2)])).sum(axis=1)
    return t, t * (1 + np.sqrt(np.abs(r2))) + np.sqrt(np.abs(r2)) * t


def judge(case):
    shells = case["shells"]
    v = Verdict(classes=["l%d-l%d" % (shells[0]["l"], shells[1]["l"])])
    if case.get("extreme"):
        v.classes.append(case["extreme"])
    R = r3.refs(shells)
    bas = mk_basis(shells)
    sp, sl = scales(R)
    off = r3.offsets(R)
    Pref = r3.two_index(R, R, r3.momentum_block)
    Lref = r3.two_index(R, R, r3.angmom_block)
    for i in range(len(R)):
        for j in range(i + 1, len(R)):
            blk = np.abs(Pref[off[i]:off[i + 1], off[j]:off[j + 1]]) / (sp[off[i]:off[i + 1], None, None] * sp[None, off[j]:off[j + 1], None])
            if np.any(R[i].A != R[j].A) and blk.max() > 1e-6 and max(s.l for s in R) >= 1:
                v.nontrivial = True
    for name, fn, ref, sc, cls in (("momentum_integral", momentum_integral, Pref, sp, MomentumIntegral),
                                   ("angular_momentum_integral", angular_momentum_integral, Lref, sl, AngularMomentumIntegral)):
        scale = (sc[:, None] * sc[None, :])[:, :, None]
        got = lib(fn, bas)
        if got.shape != ref.shape:
            return v.fail(f"{name} shape {got.shape}, expected {ref.shape}")
        d, at = maxdev(got, ref, scale)
        v.info[name[:3] + "_dev"] = d
        if not d <= TOL:
            where = "diagonal" if _blk(off, at[0]) == _blk(off, at[1]) else ("upper" if at[0] < at[1] else "lower")
            return v.fail(f"{name} deviates from exact <a|op|b> by {d:.3e} of scale at {at} ({where} shell block)")
        d, at = maxdev(got, np.conj(np.swapaxes(got, 0, 1)), scale)
        if not d <= 2 * TOL:
            return v.fail(f"{name} not Hermitian: {d:.3e} at {at}")
        d = float((np.abs(got.real) / scale).max())
        if not d <= TOL:
            return v.fail(f"{name} has a real part of {d:.3e}")
        # block level, both orientations computed independently
        b01 = lib(cls.construct_array_contraction, bas[0], bas[1])
        b10 = lib(cls.construct_array_contraction, bas[1], bas[0])
        w01 = (r3.momentum_block if cls is MomentumIntegral else r3.angmom_block)(R[0], R[1], normalised=False)
        sa = _cart_scale(R[0], cls)
        sb = _cart_scale(R[1], cls)
        bs = sa[:, :, None, None, None] * sb[None, None, :, :, None]
        d, at = maxdev(b01, w01, bs)
        if not d <= TOL:
            return v.fail(f"{cls.__name__}.construct_array_contraction(s0,s1) deviates by {d:.3e} at {at}")
        # elements that are small against the natural scale (far-apart or tight/diffuse pairs) are judged on their own terms: the
        # sum of the magnitudes of everything that is added up for the element (conditioning scale of the oracle's expansion about
        # the product centre, coordinates' own rounding included) - an evaluation that loses more than 1e-9 of that has lost digits
        # through its own cancellations (e.g. angular momentum transferred between distant centres)
        blockfn = r3.momentum_block if cls is MomentumIntegral else r3.angmom_block
        cond = r3.condition(blockfn, R[0], R[1], normalised=False)
        d, at = maxdev(b01, w01, COND_TOL * cond + COND_FLOOR * bs)
        v.info[name[:3] + "_cond_dev"] = d
        if not d <= 1.0:
            return v.fail(f"{cls.__name__}.construct_array_contraction(s0,s1): element {at} = {w01[at]!r} is off by {abs(b01[at] - w01[at]):.3e}, "
                          f"{d:.2e} x (1e-9 of the summed magnitudes of its terms + 1e-13 of the natural scale)")
        d, at = maxdev(b10, np.conj(np.transpose(w01, (2, 3, 0, 1, 4))), np.transpose(COND_TOL * cond + COND_FLOOR * bs, (2, 3, 0, 1, 4)))
        if not d <= 1.0:
            return v.fail(f"{cls.__name__}.construct_array_contraction(s1,s0): element {at} is off by {d:.2e} x (1e-9 of the summed "
                          f"magnitudes of its terms + 1e-13 of the natural scale)")
        d, at = maxdev(b10, np.conj(np.transpose(w01, (2, 3, 0, 1, 4))), np.transpose(bs, (2, 3, 0, 1, 4)))
        if not d <= TOL:
            return v.fail(f"{cls.__name__}.construct_array_contraction(s1,s0) is not the adjoint of (s0,s1): {d:.3e} at {at}")
        # reordering the shells only permutes indices
        perms = list(itertools.permutations(range(len(shells))))
        for perm in perms[1:]:
            gp = lib(fn, [bas[k] for k in perm])
            idx = np.concatenate([np.arange(off[k], off[k + 1]) for k in perm])
            d, at = maxdev(gp, ref[np.ix_(idx, idx)], scale[np.ix_(idx, idx)])
            if not d <= TOL:
                return v.fail(f"{name} with shells reordered {perm} deviates by {d:.3e} at {at}")
        v.classes.append("orderings-%d" % len(perms))
        if case.get("transform") is not None:
            T = np.array(case["transform"], dtype=float)
            gt = lib(fn, bas, transform=T)
            want = np.einsum("ia,jb,abk->ijk", T, T, ref)
            sct = np.einsum("ia,jb,abk->ijk", np.abs(T), np.abs(T), scale) + 1e-300
            d, at = maxdev(gt, want, sct)
            if not d <= TOL:
                return v.fail(f"{name}(transform) deviates by {d:.3e} at {at}")
    if case.get("transform") is not None:
        v.classes.append("transform")
    return v


def _blk(off, i):
    return int(np.searchsorted(off, i, side="right") - 1)


def _cart_scale(s, cls):
    """Per (segment, component) scale of an un-contraction-normalised Cartesian shell."""
    t = np.sqrt(2 * np.abs(np.einsum("mcmc->mc", r3.kinetic_block(s, s)))) / s.cn
    if cls is MomentumIntegral:
        return t
    r2 = sum(np.einsum("mcmck->mck", r3.moment_block(s, s, np.zeros(3), [(2, 0, 0), (0, 2, 0), (0, 0, 2)])).transpose(2, 0, 1))
    return t * (1 + 2 * np.sqrt(np.abs(r2)))


def shards(tier):
    n = 5 if tier == "quick" else 120
    return [{"id": f"{la}{lb}", "la": la, "lb": lb, "n": n, "cost": n * (1 + la + lb)}
            for la in range(5) for lb in range(5)]


def shards_extreme(tier):
    n = 2 if tier == "quick" else 40
    return [{"id": f"{la}{lb}", "la": la, "lb": lb, "n": n, "cost": n * (1 + la + lb)} for la in range(5) for lb in range(5)]


SUBCHECKS = [SubCheck("momenta", judge, shards, strategy=lambda sh: case_st(sh["la"], sh["lb"])),
             SubCheck("extreme-ratio", judge, shards_extreme, strategy=lambda sh: extreme_st(sh["la"], sh["lb"]))]
EXPECTED_CLASSES = ["extreme-ratio/diffuse-first", "extreme-ratio/tight-first"]
EXHAUSTIVE = {"l_pairs": "all 25 ordered (l_a,l_b) in 0..4", "orderings": "every ordering of the (2-4) shells of each case"}
