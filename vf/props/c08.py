"""C08 - momentum and angular-momentum integrals exact and Hermitian for every ordered pair."""
import itertools

import numpy as np
from hypothesis import strategies as st

from vf import gen
from vf.core import Verdict, lib, maxdev, mk_basis, nfunc
from vf.ref import r3
from vf.run import SubCheck

from gbasis.integrals.angular_momentum import AngularMomentumIntegral, angular_momentum_integral
from gbasis.integrals.momentum import MomentumIntegral, momentum_integral

RULE = ("Shards enumerate the 25 ordered (l_a,l_b) pairs 0..4; Hypothesis draws a basis of 2-4 generalized mixed-type "
        "shells with centres away from the origin and an optional transformation; every ordering of the shells "
        "(<= 24) is enumerated inside the case.  Oracle: R1 integrals <a|-i d/dx|b> and <a|-i (r x grad)|b> for EVERY "
        "ordered pair (upper, lower and diagonal shell blocks independently), tolerance 1e-8*sqrt(T_aa T_bb) "
        "(momentum) and 1e-8*sqrt(<a|L^2-type scale|a> ...) taken as sqrt(T_aa T_bb)*(1+|r|_a)(1+|r|_b); "
        "Hermiticity A[a,b,c]=conj(A[b,a,c]); real part zero; block-permutation law under reordering.  "
        "Non-trivial: two shells on different centres with |P_ab| above 1e-6 of the scale and a shell with l>=1.")
ASSUMPTIONS = ["reference integrals from vf/ref R1/R3/R4"]
TOL = 1e-8


@st.composite
def case_st(draw, la, lb):
    shells = draw(gen.basis(nmin=2, nmax=4, lmax=4, first_ls=(la, lb), halves=(0.5, 2.0, 5.0)))
    n = sum(nfunc(s) for s in shells)
    T = draw(st.none() | gen.transform_matrix(n))
    return {"shells": shells, "transform": T}


def scales(R):
    """Per-function scales: sqrt(2 T_aa) for momentum; that times (1 + |centre| + spread) for r x p."""
    t = np.sqrt(2 * np.abs(r3.diag_index(R, r3.kinetic_block)))
    r2 = r3.diag_index(R, lambda a, b: r3.moment_block(a, b, np.zeros(3), [(2, 0, 0), (0, 2, 0), (0, 0, 2)])).sum(axis=1)
    return t, t * (1 + np.sqrt(np.abs(r2))) + np.sqrt(np.abs(r2)) * t


def judge(case):
    shells = case["shells"]
    v = Verdict(classes=["l%d-l%d" % (shells[0]["l"], shells[1]["l"])])
    R = r3.refs(shells)
    bas = mk_basis(shells)
    sp, sl = scales(R)
    off = r3.offsets(R)
    Pref = r3.two_index(R, R, r3.momentum_block)
    Lref = r3.two_index(R, R, r3.angmom_block)
    for i in range(len(R)):
        for j in range(i + 1, len(R)):
            blk = np.abs(Pref[off[i]:off[i + 1], off[j]:off[j + 1]]) / (sp[off[i]:off[i + 1], None, None] * sp[None, off[j]:off[j + 1], None])
            if np.any(R[i].A != R[j].A) and blk.max() > 1e-6 and max(s.l for s in R) >= 1:
                v.nontrivial = True
    for name, fn, ref, sc, cls in (("momentum_integral", momentum_integral, Pref, sp, MomentumIntegral),
                                   ("angular_momentum_integral", angular_momentum_integral, Lref, sl, AngularMomentumIntegral)):
        scale = (sc[:, None] * sc[None, :])[:, :, None]
        got = lib(fn, bas)
        if got.shape != ref.shape:
            return v.fail(f"{name} shape {got.shape}, expected {ref.shape}")
        d, at = maxdev(got, ref, scale)
        v.info[name[:3] + "_dev"] = d
        if not d <= TOL:
            where = "diagonal" if _blk(off, at[0]) == _blk(off, at[1]) else ("upper" if at[0] < at[1] else "lower")
            return v.fail(f"{name} deviates from exact <a|op|b> by {d:.3e} of scale at {at} ({where} shell block)")
        d, at = maxdev(got, np.conj(np.swapaxes(got, 0, 1)), scale)
        if not d <= 2 * TOL:
            return v.fail(f"{name} not Hermitian: {d:.3e} at {at}")
        d = float((np.abs(got.real) / scale).max())
        if not d <= TOL:
            return v.fail(f"{name} has a real part of {d:.3e}")
        # block level, both orientations computed independently
        b01 = lib(cls.construct_array_contraction, bas[0], bas[1])
        b10 = lib(cls.construct_array_contraction, bas[1], bas[0])
        w01 = (r3.momentum_block if cls is MomentumIntegral else r3.angmom_block)(R[0], R[1], normalised=False)
        sa = _cart_scale(R[0], cls)
        sb = _cart_scale(R[1], cls)
        bs = sa[:, :, None, None, None] * sb[None, None, :, :, None]
        d, at = maxdev(b01, w01, bs)
        if not d <= TOL:
            return v.fail(f"{cls.__name__}.construct_array_contraction(s0,s1) deviates by {d:.3e} at {at}")
        d, at = maxdev(b10, np.conj(np.transpose(w01, (2, 3, 0, 1, 4))), np.transpose(bs, (2, 3, 0, 1, 4)))
        if not d <= TOL:
            return v.fail(f"{cls.__name__}.construct_array_contraction(s1,s0) is not the adjoint of (s0,s1): {d:.3e} at {at}")
        # reordering the shells only permutes indices
        perms = list(itertools.permutations(range(len(shells))))
        for perm in perms[1:]:
            gp = lib(fn, [bas[k] for k in perm])
            idx = np.concatenate([np.arange(off[k], off[k + 1]) for k in perm])
            d, at = maxdev(gp, ref[np.ix_(idx, idx)], scale[np.ix_(idx, idx)])
            if not d <= TOL:
                return v.fail(f"{name} with shells reordered {perm} deviates by {d:.3e} at {at}")
        v.classes.append("orderings-%d" % len(perms))
        if case.get("transform") is not None:
            T = np.array(case["transform"], dtype=float)
            gt = lib(fn, bas, transform=T)
            want = np.einsum("ia,jb,abk->ijk", T, T, ref)
            sct = np.einsum("ia,jb,abk->ijk", np.abs(T), np.abs(T), scale) + 1e-300
            d, at = maxdev(gt, want, sct)
            if not d <= TOL:
                return v.fail(f"{name}(transform) deviates by {d:.3e} at {at}")
    if case.get("transform") is not None:
        v.classes.append("transform")
    return v


def _blk(off, i):
    return int(np.searchsorted(off, i, side="right") - 1)


def _cart_scale(s, cls):
    """Per (segment, component) scale of an un-contraction-normalised Cartesian shell."""
    t = np.sqrt(2 * np.abs(np.einsum("mcmc->mc", r3.kinetic_block(s, s)))) / s.cn
    if cls is MomentumIntegral:
        return t
    r2 = sum(np.einsum("mcmck->mck", r3.moment_block(s, s, np.zeros(3), [(2, 0, 0), (0, 2, 0), (0, 0, 2)])).transpose(2, 0, 1))
    return t * (1 + 2 * np.sqrt(np.abs(r2)))


def shards(tier):
    n = 5 if tier == "quick" else 120
    return [{"id": f"{la}{lb}", "la": la, "lb": lb, "n": n, "cost": n * (1 + la + lb)}
            for la in range(5) for lb in range(5)]


SUBCHECKS = [SubCheck("momenta", judge, shards, strategy=lambda sh: case_st(sh["la"], sh["lb"]))]
EXHAUSTIVE = {"l_pairs": "all 25 ordered (l_a,l_b) in 0..4", "orderings": "every ordering of the (2-4) shells of each case"}
