"""C09 - spherical, mixed and linearly transformed results derive from the Cartesian ones; conventions honoured."""
import itertools
import math

import numpy as np
from hypothesis import strategies as st

from vf import gen, iodata_standin, quant
from vf.core import Verdict, lib, mk_basis, mk_shell, nfunc, sh
from vf.ref import r3, r4
from vf.run import SubCheck

from gbasis.base_four_symm import BaseFourIndexSymmetric
from gbasis.base_one import BaseOneIndex
from gbasis.base_two_asymm import BaseTwoIndexAsymmetric
from gbasis.base_two_symm import BaseTwoIndexSymmetric
from gbasis.contractions import GeneralizedContractionShell
from gbasis.integrals.overlap_asymm import overlap_integral_asymmetric

RULE = ("(types) Hypothesis draws a basis of 1-3 generalized shells (l 0..3, M 1-3 so that blocks have distinct sizes), an "
        "environment (points, charges, origin, orders, alpha/beta, density matrices) and a transformation; EVERY assignment of "
        "cartesian/spherical to the shells (2^n) is enumerated and every public quantity is compared with its all-Cartesian "
        "result contracted on every basis index with block-diagonal R4 matrices (density-type functions: density matrix pulled "
        "back); then result(T) = T applied on every index of result(no T), rectangular T included.  (conventions) shell "
        "subclasses reporting permuted Cartesian components / permuted and signed spherical labels (all for l <= 1 enumerated "
        "per case, drawn above) must give outputs permuted and signed accordingly in every module; the same through the IOData import "
        "path (gbasis.wrappers.from_iodata driven with a stand-in IOData object and drawn per-angular-momentum conventions).  (assembly) the four "
        "assembly base classes are driven with labelled dummy blocks cut from a ground-truth tensor with forced random "
        "normalisation constants: all 1- and 2-shell shapes over (l 0..2, M 1..2, c/s) enumerated (3-shell shapes drawn; "
        "four-index class: all shapes up to 3 shells over l 0..1, M 1..2), every construct_array_* path.  Non-trivial: both "
        "types present, or a shell with M >= 2 and l >= 2, or K_orb != K_cont, or a non-default convention.")
ASSUMPTIONS = ["Cartesian->spherical matrices from vf/ref R4 (the library's own are judged in C10)",
               "ERI relations use C04's exponent window (0.1-10) and 2e-6"]


# ---------------------------------------------------------------------------------------------
@st.composite
def env_st(draw, cents, nmax_pts=4):
    pts = draw(gen.points_near(cents, nmin=1, nmax=nmax_pts, far=20.0))
    nn = draw(st.integers(1, 3))
    nuc = [[c + draw(st.floats(-1, 1, allow_nan=False)) * draw(st.integers(0, 1)) for c in cents[draw(st.integers(0, len(cents) - 1))]]
           for _ in range(nn)]
    # keep evaluation points off the nuclei (ESP would be infinite there)
    def clear(p):
        # keep evaluation points off the nuclei (the ESP is infinite there) but allow them as close as 1e-3 bohr
        for _ in range(20):
            if all(sum((a - b) ** 2 for a, b in zip(p, c)) > 1e-3 ** 2 for c in nuc):
                return p
            p = [p[0] + 0.0037, p[1] + 0.0011, p[2]]
        return p

    if draw(st.integers(0, 2)) == 0:  # a point 1e-3 .. 1e-2 bohr from a nucleus
        c0 = nuc[0]
        ax = draw(st.integers(0, 2))
        p0 = list(c0)
        p0[ax] += draw(st.sampled_from([1.5e-3, 4e-3, 1e-2, -2e-3]))
        pts = pts + [p0]
    pts = [clear(p) for p in pts]
    q = [draw(gen.log_uniform(0.3, 20.0)) * (1 if draw(st.booleans()) else -1) for _ in range(nn)]
    orders = draw(st.lists(st.tuples(*[st.integers(0, 3)] * 3), min_size=1, max_size=3))
    return {"points": pts, "nuc_coords": nuc, "nuc_charges": q,
            "origin": [draw(st.floats(-2, 2, allow_nan=False)) for _ in range(3)],
            "orders": [list(o) for o in orders],
            "deriv_order": list(draw(st.tuples(*[st.integers(0, 3)] * 3))),
            "alpha": draw(st.sampled_from([0, 0.5, 1, 0.3])), "beta": draw(st.sampled_from([0, 1, -0.7])),
            "tol_screen": draw(gen.log_uniform(1e-12, 1e-2))}


@st.composite
def types_case(draw, eri):
    lmax = 2 if eri else 3
    shells = draw(gen.basis(nmin=1, nmax=2 if eri else 3, lmax=lmax, kmax=2 if eri else 3, mmax=2 if eri else 3,
                            types=("cartesian",), exp_lo=0.1 if eri else 0.05, exp_hi=10.0 if eri else 200.0,
                            halves=(0.5, 2.0)))
    for s in shells:
        s["type"] = draw(st.sampled_from(gen.TYPES))
    env = draw(env_st([s["coord"] for s in shells]))
    ncart = sum(nfunc(s, "cartesian") for s in shells)
    n = sum(nfunc(s) for s in shells)
    T = draw(gen.transform_matrix(n))
    G, _ = draw(gen.sym_matrix(ncart))
    G2, _ = draw(gen.sym_matrix(len(T)))
    return {"shells": shells, "env": env, "transform": T, "G": G, "G2": G2, "eri": eri,
            "split": draw(st.integers(1, 2))}


def judge_types(case):
    shells = case["shells"]
    env = dict(case["env"])
    v = Verdict()
    quants = quant.ERI if case["eri"] else quant.INDEXED + quant.DENSITY
    G = np.array(case["G"], dtype=float)
    cart_shells = [dict(s, type="cartesian") for s in shells]
    bc = mk_basis(cart_shells)
    base = {}
    scc = quant.Scales(bc, env, shells=cart_shells)
    n = len(shells)
    if any(len(s["coeffs"][0]) >= 2 and s["l"] >= 2 for s in shells):
        v.nontrivial = True
        v.classes.append("M>=2,l>=2")
    for assign in itertools.product(gen.TYPES, repeat=n):
        typed = [dict(s, type=t) for s, t in zip(shells, assign)]
        R = r3.refs(typed)
        W = r3.one_index_transform(R)
        bt = mk_basis(typed)
        kt = W.shape[0]
        gt = G[:kt, :kt]
        if len(set(assign)) == 2:
            v.nontrivial = True
            v.classes.append("mixed")
        for q in quants:
            if q.density:
                got = lib(q, bt, env, None, gt)
                want = lib(q, bc, env, None, W.T @ gt @ W)
                d, at = quant.same_dev(got, want, mag=scc.mag(q, W.T @ gt @ W))
            else:
                if q.name not in base:
                    base[q.name] = lib(q, bc, env)
                got = lib(q, bt, env)
                d, at = quant.relation_dev(got, base[q.name], [W] * len(q.axes), q.axes, nat=scc.nat(q, base[q.name]))
            v.info["rel_dev"] = max(v.info.get("rel_dev", 0.0), d / q.tol * 1e-9)
            if not d <= q.tol:
                return v.fail(f"{q.name} for types {assign} is not the all-Cartesian result with each spherical shell's block "
                              f"contracted with its Cartesian->spherical matrix: deviation {d:.3e} at {at}")
        if not case["eri"]:
            k = min(case["split"], n - 1) if n > 1 else None
            if k:
                off = r3.offsets(R)
                S = base["overlap_integral"]
                offc = np.cumsum([0] + [nfunc(s, "cartesian") for s in shells])
                got = lib(overlap_integral_asymmetric, bt[:k], bt[k:])
                want = W[:off[k], :offc[k]] @ S[:offc[k], offc[k]:] @ W[off[k]:, offc[k]:].T
                d, at = quant.same_dev(got, want, mag=np.array(1e4))
                if not d <= 1e-9:
                    return v.fail(f"overlap_integral_asymmetric for types {assign}: deviation {d:.3e} at {at}")
    # transformation law on the declared types
    T = np.array(case["transform"], dtype=float)
    G2 = np.array(case["G2"], dtype=float)
    bt = mk_basis(shells)
    sct = quant.Scales(bt, env, shells=shells)
    if T.shape[0] != T.shape[1]:
        v.nontrivial = True
        v.classes.append("rectangular-T")
    if np.all(T == np.round(T)):  # an integer-typed transformation (e.g. a permutation matrix) is the same transformation
        v.classes.append("integer-T")
        for q in quants[:4]:
            if not q.density:
                gi = lib(q, bt, env, T.astype(int))
                gf = lib(q, bt, env, T)
                if gi.shape != gf.shape or not np.allclose(gi, gf, rtol=1e-12, atol=0):
                    return v.fail(f"{q.name}: an integer-typed transform gives a different result from the same matrix as floats")
    for q in quants:
        if q.density:
            got = lib(q, bt, env, T, G2)
            want = lib(q, bt, env, None, T.T @ G2 @ T)
            d, at = quant.same_dev(got, want, mag=sct.mag(q, G2, T))
        else:
            got = lib(q, bt, env, T)
            plain = lib(q, bt, env)
            d, at = quant.relation_dev(got, plain, [T] * len(q.axes), q.axes, nat=sct.nat(q, plain))
        if not d <= q.tol:
            return v.fail(f"{q.name} with transform (shape {T.shape}) is not the untransformed array with T applied on every "
                          f"basis index: deviation {d:.3e} at {at}")
    # a complex transformation (complex orbital coefficients): T is applied to every basis index, not conjugated on any of them;
    # the documentation names no dtype, so a function may also refuse it
    Tc = T + 0.7j * np.roll(T, 1, axis=1)
    for q in quants:
        if q.density:
            continue
        try:
            got = q(bt, env, Tc)
        except Exception:  # noqa: BLE001 - refusing a complex transformation is acceptable
            v.classes.append("complex-T-rejected")
            continue
        v.classes.append("complex-T")
        plain = lib(q, bt, env)
        d, at = quant.relation_dev(got, plain, [Tc] * len(q.axes), q.axes, nat=sct.nat(q, plain))
        if not d <= q.tol:
            return v.fail(f"{q.name} with a complex transform is not the untransformed array with T applied (unconjugated) on every "
                          f"basis index: deviation {d:.3e} at {at}")
    if not case["eri"]:
        k = 1 if n > 1 else None
        if k:
            R = r3.refs(shells)
            off = r3.offsets(R)
            T1 = T[:, :off[k]]
            T2 = T[:, off[k]:]
            plain = lib(overlap_integral_asymmetric, bt[:k], bt[k:])
            got = lib(overlap_integral_asymmetric, bt[:k], bt[k:], transform_one=T1, transform_two=T2)
            d, at = quant.relation_dev(got, plain, [T1, T2], (0, 1), nat=1.0)
            if not d <= 1e-9:
                return v.fail(f"overlap_integral_asymmetric with transforms: deviation {d:.3e} at {at}")
            got = lib(overlap_integral_asymmetric, bt[:k], bt[k:], transform_one=T1)
            d, at = quant.relation_dev(got, plain, [T1], (0,), nat=1.0)
            if not d <= 1e-9:
                return v.fail(f"overlap_integral_asymmetric with transform_one only: deviation {d:.3e} at {at}")
    return v


def shards_types(tier):
    k, n = (12, 2) if tier == "quick" else (48, 12)
    ke, ne = (8, 2) if tier == "quick" else (32, 8)
    return ([{"id": f"q{i}", "n": n, "eri": False, "cost": 30 * n} for i in range(k)]
            + [{"id": f"e{i}", "n": ne, "eri": True, "cost": 60 * ne} for i in range(ke)])


# ---------------------------------------------------------------------------------------------
# (b) conventions through shell subclasses
def conv_class(cart_order, sph_labels):
    class ConvShell(GeneralizedContractionShell):
        @property
        def angmom_components_cart(self):
            return np.array(cart_order, dtype=int).reshape(-1, 3)

        @property
        def angmom_components_sph(self):
            return tuple(sph_labels)

    return ConvShell


def conv_matrix(shells, convs):
    """Signed permutation C with f_conv = C f_default over the typed function list."""
    n = sum(nfunc(s) for s in shells)
    C = np.zeros((n, n))
    r = 0
    for s, (cart, labels) in zip(shells, convs):
        l = s["l"]
        m = len(s["coeffs"][0])
        if s["type"] == "cartesian":
            d = r4.default_cart(l)
            idx = [(d.index(tuple(c)), 1.0) for c in cart]
        else:
            d = r4.default_sph(l)
            idx = []
            for lab in labels:
                sign, kind, mm = r4.parse_label(lab)
                idx.append((d.index("%s%d" % (kind, mm)), float(sign)))
        k = len(idx)
        for seg in range(m):
            for p, (j, sg) in enumerate(idx):
                C[r + seg * k + p, r + seg * k + j] = sg
        r += m * k
    return C


@st.composite
def conv_case(draw, eri):
    case = draw(types_case(eri))
    convs = []
    for s in case["shells"]:
        l = s["l"]
        # each ingredient is changed independently: an fchk-style shell differs from the default ONLY in its Cartesian
        # order, an ORCA-style one only in signs - combinations that a jointly-permuted convention never produces
        cart = draw(st.permutations(r4.default_cart(l))) if draw(st.booleans()) else r4.default_cart(l)
        lab = draw(st.permutations(r4.default_sph(l))) if draw(st.booleans()) else r4.default_sph(l)
        if draw(st.booleans()):
            lab = [("-" if draw(st.booleans()) else "") + x for x in lab]
        convs.append(([list(c) for c in cart], list(lab)))
    case["convs"] = convs
    return case


def judge_conv(case):
    shells = case["shells"]
    env = dict(case["env"])
    convs = case["convs"]
    v = Verdict(nontrivial=any(s["l"] >= 1 for s in shells))
    quants = quant.ERI if case["eri"] else quant.INDEXED + quant.DENSITY
    bd = mk_basis(shells)
    scd = quant.Scales(bd, env, shells=shells)
    bcv = [mk_shell(s, cls=conv_class(c, lab)) for s, (c, lab) in zip(shells, convs)]
    C = conv_matrix(shells, convs)
    n = C.shape[0]
    G = np.array(case["G"], dtype=float)[:n, :n]
    for q in quants:
        if q.density:
            got = lib(q, bcv, env, None, G)
            want = lib(q, bd, env, None, C.T @ G @ C)
            d, at = quant.same_dev(got, want, mag=scd.mag(q, C.T @ G @ C))
        else:
            got = lib(q, bcv, env)
            plain = lib(q, bd, env)
            d, at = quant.relation_dev(got, plain, [C] * len(q.axes), q.axes, nat=scd.nat(q, plain))
        if not d <= q.tol:
            return v.fail(f"{q.name}: a shell type reporting components {convs} does not give the default output permuted "
                          f"and signed accordingly: deviation {d:.3e} at {at}")
    # with a transformation on top
    T = np.array(case["transform"], dtype=float)
    for q in quants[:4]:
        if q.density:
            continue
        got = lib(q, bcv, env, T)
        plain = lib(q, bd, env)
        d, at = quant.relation_dev(got, plain, [T @ C] * len(q.axes), q.axes, nat=scd.nat(q, plain))
        if not d <= q.tol:
            return v.fail(f"{q.name} with convention shells and a transformation: deviation {d:.3e} at {at}")
    return v


# ---- conventions through the IOData import path (gbasis.wrappers.from_iodata with a stand-in for the iodata package) ----------
@st.composite
def iodata_case(draw, eri):
    case = draw(types_case(eri))
    for s in case["shells"]:  # IOData shells are segmented
        s["coeffs"] = [[row[0]] for row in s["coeffs"]]
    n = sum(nfunc(s) for s in case["shells"])
    case["transform"] = draw(gen.transform_matrix(n))
    case["G"], _ = draw(gen.sym_matrix(n))
    conv = {}
    for l in sorted({s["l"] for s in case["shells"]}):
        cart = draw(st.permutations(r4.default_cart(l))) if draw(st.booleans()) else r4.default_cart(l)
        lab = draw(st.permutations(r4.default_sph(l))) if draw(st.booleans()) else r4.default_sph(l)
        if draw(st.booleans()):
            lab = [("-" if draw(st.booleans()) else "") + x for x in lab]
        conv[str(l)] = {"c": [list(c) for c in cart], "p": list(lab)}
    case["iodata_conv"] = conv
    return case


def judge_iodata(case):
    from gbasis.wrappers import from_iodata

    shells = case["shells"]
    env = dict(case["env"])
    conv = case["iodata_conv"]
    v = Verdict(nontrivial=any(s["l"] >= 1 for s in shells))
    quants = quant.ERI if case["eri"] else quant.INDEXED + quant.DENSITY

    mol = iodata_standin.molecule(shells, conv)
    bio = lib(from_iodata, mol)
    if len(bio) != len(shells):
        return v.fail(f"from_iodata returned {len(bio)} shells for {len(shells)}")
    for i, (b, d) in enumerate(zip(bio, shells)):
        if not (b.angmom == d["l"] and b.coord_type == d["type"] and np.array_equal(b.exps, np.array(d["exps"]))
                and np.array_equal(b.coeffs, np.array(d["coeffs"])) and np.array_equal(b.coord, np.array(d["coord"]))
                and b.icenter == i):
            return v.fail(f"from_iodata shell {i} does not preserve the molecule's data")
    # reference: default-convention shells carrying the same (unit) contraction normalisation that IOData shells use
    bd = mk_basis(shells)
    for b in bd:
        b.norm_cont = np.ones_like(b.norm_cont)
    convs = [(conv[str(d["l"])]["c"], conv[str(d["l"])]["p"]) for d in shells]
    C = conv_matrix(shells, convs)
    n = C.shape[0]
    G = np.array(case["G"], dtype=float)[:n, :n]
    scd = quant.Scales(bd, env)
    for q in quants:
        if q.density:
            got = lib(q, bio, env, None, G)
            want = lib(q, bd, env, None, C.T @ G @ C)
            d_, at = quant.same_dev(got, want, mag=scd.mag(q, C.T @ G @ C))
        else:
            got = lib(q, bio, env)
            plain = lib(q, bd, env)
            d_, at = quant.relation_dev(got, plain, [C] * len(q.axes), q.axes, nat=scd.nat(q, plain))
        if not d_ <= q.tol:
            return v.fail(f"{q.name}: shells imported through from_iodata with conventions {conv} do not give the default output "
                          f"permuted and signed accordingly: deviation {d_:.3e} at {at}")
    T = np.array(case["transform"], dtype=float)
    for q in quants[:2]:
        if not q.density:
            got = lib(q, bio, env, T)
            plain = lib(q, bd, env)
            d_, at = quant.relation_dev(got, plain, [T @ C] * len(q.axes), q.axes, nat=scd.nat(q, plain))
            if not d_ <= q.tol:
                return v.fail(f"{q.name} (from_iodata shells, transform): deviation {d_:.3e} at {at}")
    return v


def shards_iodata(tier):
    k, n = (6, 3) if tier == "quick" else (24, 20)
    return ([{"id": f"q{i}", "n": n, "eri": False, "cost": 20 * n} for i in range(k)]
            + [{"id": f"e{i}", "n": max(1, n // 2), "eri": True, "cost": 40 * n} for i in range(max(2, k // 3))])


def shards_conv(tier):
    k, n = (8, 3) if tier == "quick" else (32, 20)
    return ([{"id": f"q{i}", "n": n, "eri": False, "cost": 20 * n} for i in range(k)]
            + [{"id": f"e{i}", "n": max(1, n // 2), "eri": True, "cost": 40 * n} for i in range(max(2, k // 4))])


def conv_enum_cases(shard):
    return list(_conv_enum_cases(shard))[shard["lo"]::shard["step"]]


def _conv_enum_cases(shard):
    """l <= 1: every Cartesian order and every label order x sign, one shell + an s neighbour."""
    l = shard["l"]
    env = {"points": [[0.3, -0.4, 0.9], [0.0, 0.0, 0.5]], "nuc_coords": [[0.1, 0.2, -0.3]], "nuc_charges": [2.0],
           "origin": [0.2, 0.1, -0.4], "orders": [[1, 0, 2], [0, 1, 1]], "deriv_order": [1, 2, 0], "alpha": 0.3, "beta": 1}
    for typ in gen.TYPES:
        shells = [sh(l, [0.0, 0.0, 0.5], [1.3, 0.4], [[0.6, 0.2], [0.5, -0.7]], typ),
                  sh(0, [0.4, -0.3, 0.0], [0.9], [[1.0]], "cartesian")]
        n = sum(nfunc(s) for s in shells)
        G = [[math.cos(0.3 + 1.1 * i + 0.7 * j) + math.cos(0.3 + 1.1 * j + 0.7 * i) for j in range(n)] for i in range(n)]
        if typ == "cartesian":
            for cart in itertools.permutations(r4.default_cart(l)):
                yield {"shells": shells, "env": env, "transform": np.eye(n).tolist(), "G": G, "eri": False,
                       "convs": [([list(c) for c in cart], r4.default_sph(l)), (r4.default_cart(0), r4.default_sph(0))]}
        else:
            for cart in itertools.permutations(r4.default_cart(l)):  # spherical shell, only the Cartesian order differs
                yield {"shells": shells, "env": env, "transform": np.eye(n).tolist(), "G": G, "eri": False,
                       "convs": [([list(c) for c in cart], r4.default_sph(l)), (r4.default_cart(0), r4.default_sph(0))]}
            for perm in itertools.permutations(r4.default_sph(l)):
                for signs in itertools.product(("", "-"), repeat=len(perm)):
                    yield {"shells": shells, "env": env, "transform": np.eye(n).tolist(), "G": G, "eri": False,
                           "convs": [(r4.default_cart(l), [a + b for a, b in zip(signs, perm)]),
                                     (r4.default_cart(0), r4.default_sph(0))]}


def shards_conv_enum(tier):
    out = [{"id": "0", "l": 0, "lo": 0, "step": 1, "cost": 5}] + [{"id": f"1-{i}", "l": 1, "lo": i, "step": 12, "cost": 100}
                                                                  for i in range(12)]
    if tier == "thorough":  # l = 2: all 720 Cartesian orders and all 120 x 32 label orders x signs
        out += [{"id": f"2-{i}", "l": 2, "lo": i, "step": 64, "cost": 400} for i in range(64)]
    return out


# ---------------------------------------------------------------------------------------------
# (c) assembly logic on labelled dummy blocks
def _gt(*idx):
    """Deterministic, distinguishable ground-truth numbers (no RNG)."""
    x = 0.37
    for k, i in enumerate(idx):
        x = x + (1.13 + 0.71 * k) * i
    return np.cos(x) + 0.1 * np.sin(2.3 * x + 1.0)


def _dummy_shells(shape, tag0=0):
    out = []
    off = 0
    for i, (l, m, t) in enumerate(shape):
        s = GeneralizedContractionShell(l, np.zeros(3), np.ones((1, m)), np.array([1.0 + i]), t)
        L = (l + 1) * (l + 2) // 2
        s.norm_cont = 0.5 + np.abs(np.fromfunction(lambda a, b: _gt(a + 3 * (i + tag0), b), (m, L)))
        s.vf_off, s.vf_n, s.vf_tag = off, m * L, i + tag0
        off += m * L
        out.append(s)
    return out, off


def _expected(G, shell_lists, types_lists, transforms=None):
    """Scale by forced norms, transform blockwise, optionally apply transforms on the leading axes."""
    out = G
    for ax, (shells, types) in enumerate(zip(shell_lists, types_lists)):
        nvec = np.concatenate([s.norm_cont.reshape(-1) for s in shells])
        ref = [r3.ShellRef({"l": s.angmom, "coord": [0, 0, 0], "exps": [1.0], "coeffs": [[1.0] * s.num_seg_cont], "type": t})
               for s, t in zip(shells, types)]
        W = r3.one_index_transform(ref) * nvec[None, :]
        out = np.moveaxis(np.tensordot(W, out, (1, ax)), 0, ax)
    if transforms is not None:
        for ax, T in enumerate(transforms):
            if T is not None:
                out = np.moveaxis(np.tensordot(T, out, (1, ax)), 0, ax)
    return out


def _paths(types):
    """Which construct_array_* paths apply to a type pattern: (name, callable(obj, kwargs))."""
    paths = []
    if all(t == "cartesian" for t in types):
        paths.append(("cartesian", lambda o, kw: o.construct_array_cartesian(**kw)))
    if all(t == "spherical" for t in types):
        paths.append(("spherical", lambda o, kw: o.construct_array_spherical(**kw)))
    paths.append(("mix", lambda o, kw: o.construct_array_mix(list(types), **kw)))
    return paths


def _tmat(rows, n):
    rows = max(1, rows)
    return np.fromfunction(lambda a, b: _gt(a, b, 5), (rows, n))


def judge_assembly(case):
    shape = [tuple(x) for x in case["shape"]]
    kind = case["kind"]
    v = Verdict(classes=[kind, "shells-%d" % len(shape)])
    types = [t for (_, _, t) in shape]
    v.nontrivial = len(set(types)) == 2 or any(m >= 2 and l >= 2 for (l, m, _) in shape) or len(shape) >= 2
    E = 2
    shells, n = _dummy_shells(shape)
    ext = {"extra": 1}  # kwargs must be forwarded to construct_array_contraction

    def chk(name, got, want):
        if got.shape != want.shape:
            return v.fail(f"{kind}/{name} on shape {shape}: output shape {got.shape}, expected {want.shape}")
        d = np.abs(got - want).max() if got.size else 0.0
        if not d <= 1e-12 * (1 + np.abs(want).max()):
            at = np.unravel_index(int(np.argmax(np.abs(got - want))), got.shape)
            return v.fail(f"{kind}/{name} on shape {shape}: element {tuple(int(x) for x in at)} is {got[at]!r}, the block-wise "
                          f"normalised/transformed ground truth is {want[at]!r}")
        return None

    if kind == "one":
        G = np.fromfunction(lambda a, e: _gt(a, e), (n, E))

        class One(BaseOneIndex):
            def construct_array_contraction(self, cont, extra=None):
                assert extra == 1
                return G[cont.vf_off:cont.vf_off + cont.vf_n].reshape(cont.num_seg_cont, cont.num_cart, E).copy()

        obj = One(shells)
        want = _expected(G, [shells], [types])
        for name, f in _paths(types):
            if chk(name, lib(f, obj, ext), want):
                return v
        T = _tmat(want.shape[0] + case.get("trows", 0), want.shape[0])
        if chk("lincomb", lib(obj.construct_array_lincomb, T, list(types), **ext), _expected(G, [shells], [types], [T])):
            return v
    elif kind == "two_symm":
        A = np.fromfunction(lambda a, b, e: _gt(a, b, e), (n, n, E)) + 1j * np.fromfunction(lambda a, b, e: _gt(b, a, e + 7), (n, n, E))
        G = A + np.conj(np.swapaxes(A, 0, 1))  # Hermitian ground truth (real symmetric operators are a special case)
        calls = []

        class Two(BaseTwoIndexSymmetric):
            def construct_array_contraction(self, c1, c2, extra=None):
                assert extra == 1
                calls.append((c1.vf_tag, c2.vf_tag))
                return G[c1.vf_off:c1.vf_off + c1.vf_n, c2.vf_off:c2.vf_off + c2.vf_n].reshape(
                    c1.num_seg_cont, c1.num_cart, c2.num_seg_cont, c2.num_cart, E).copy()

        obj = Two(shells)
        want = _expected(G, [shells, shells], [types, types])
        for name, f in _paths(types):
            if chk(name, lib(f, obj, ext), want):
                return v
        T = _tmat(want.shape[0] + case.get("trows", 0), want.shape[0])
        if chk("lincomb", lib(obj.construct_array_lincomb, T, list(types), **ext),
               _expected(G, [shells, shells], [types, types], [T, T])):
            return v
    elif kind == "two_asymm":
        shape2 = [tuple(x) for x in case["shape2"]]
        types2 = [t for (_, _, t) in shape2]
        shells2, n2 = _dummy_shells(shape2, tag0=10)
        G = np.fromfunction(lambda a, b, e: _gt(a, b, e), (n, n2, E))

        class Asym(BaseTwoIndexAsymmetric):
            def construct_array_contraction(self, c1, c2, extra=None):
                assert extra == 1
                return G[c1.vf_off:c1.vf_off + c1.vf_n, c2.vf_off:c2.vf_off + c2.vf_n].reshape(
                    c1.num_seg_cont, c1.num_cart, c2.num_seg_cont, c2.num_cart, E).copy()

        obj = Asym(shells, shells2)
        want = _expected(G, [shells, shells2], [types, types2])
        if all(t == "cartesian" for t in types + types2):
            if chk("cartesian", lib(obj.construct_array_cartesian, **ext), want):
                return v
        if all(t == "spherical" for t in types + types2):
            if chk("spherical", lib(obj.construct_array_spherical, **ext), want):
                return v
        if chk("mix", lib(obj.construct_array_mix, list(types), list(types2), **ext), want):
            return v
        T1 = _tmat(want.shape[0] + case.get("trows", 0), want.shape[0])
        T2 = _tmat(want.shape[1] + 1, want.shape[1])
        for (a, b) in ((T1, T2), (T1, None), (None, T2), (None, None)):
            if chk("lincomb", lib(obj.construct_array_lincomb, a, b, list(types), list(types2), **ext),
                   _expected(G, [shells, shells2], [types, types2], [a, b])):
                return v
    else:  # four_symm
        A = np.fromfunction(lambda a, b, c, d: _gt(a, b, c, d), (n, n, n, n))
        G = sum(np.transpose(A, p) for p in ((0, 1, 2, 3), (1, 0, 2, 3), (0, 1, 3, 2), (1, 0, 3, 2),
                                             (2, 3, 0, 1), (3, 2, 0, 1), (2, 3, 1, 0), (3, 2, 1, 0)))

        class Four(BaseFourIndexSymmetric):
            def construct_array_contraction(self, c1, c2, c3, c4, extra=None):
                assert extra == 1
                cs = (c1, c2, c3, c4)
                blk = G[tuple(slice(c.vf_off, c.vf_off + c.vf_n) for c in cs)]
                return blk.reshape(sum(((c.num_seg_cont, c.num_cart) for c in cs), ())).copy()

        obj = Four(shells)
        want = _expected(G, [shells] * 4, [types] * 4)
        for name, f in _paths(types):
            if chk(name, lib(f, obj, ext), want):
                return v
        T = _tmat(want.shape[0] + case.get("trows", 0), want.shape[0])
        if chk("lincomb", lib(obj.construct_array_lincomb, T, list(types), **ext),
               _expected(G, [shells] * 4, [types] * 4, [T] * 4)):
            return v
    return v


def _shell_space(lmax, mmax):
    return [(l, m, t) for l in range(lmax + 1) for m in range(1, mmax + 1) for t in gen.TYPES]


def assembly_cases(shard):
    kind = shard["kind"]
    space = _shell_space(1, 2) if kind == "four_symm" else _shell_space(2, 2)
    shapes = []
    for n in shard["nshells"]:
        shapes += list(itertools.product(space, repeat=n))
    shapes = shapes[shard["lo"]::shard["step"]]
    for i, shp in enumerate(shapes):
        case = {"kind": kind, "shape": [list(x) for x in shp], "trows": (i % 3) - 1 if len(shp) > 0 else 0}
        if kind == "two_asymm":
            case["shape2"] = [list(x) for x in shapes[(i * 7 + 3) % len(shapes)]]
        yield case


def shards_assembly(tier):
    out = []
    for kind in ("one", "two_symm", "two_asymm"):
        for lo in range(8):
            out.append({"id": f"{kind}-12-{lo}", "kind": kind, "nshells": [1, 2], "lo": lo, "step": 8, "cost": 30})
        # three-shell shapes: a stride sample in quick, all in thorough
        step3 = 64 if tier == "quick" else 8
        for lo in range(8):
            out.append({"id": f"{kind}-3-{lo}", "kind": kind, "nshells": [3], "lo": lo, "step": step3, "cost": 60})
    for lo in range(8):
        out.append({"id": f"four-{lo}", "kind": "four_symm", "nshells": [1, 2, 3], "lo": lo, "step": 8, "cost": 120})
    return out


SUBCHECKS = [
    SubCheck("types", judge_types, shards_types, strategy=lambda s: types_case(s["eri"])),
    SubCheck("conventions", judge_conv, shards_conv, strategy=lambda s: conv_case(s["eri"])),
    SubCheck("conventions-enum", judge_conv, shards_conv_enum, cases=conv_enum_cases),
    SubCheck("conventions-iodata", judge_iodata, shards_iodata, strategy=lambda s: iodata_case(s["eri"])),
    SubCheck("assembly", judge_assembly, shards_assembly, cases=assembly_cases),
]
EXHAUSTIVE = {"types": "every cartesian/spherical assignment (2^n) of each generated basis",
              "conventions-enum": "l <= 1 (thorough: l <= 2): every Cartesian component order and every label order x sign pattern",
              "assembly": "one-/two-index classes: all 1- and 2-shell shapes over (l 0..2, M 1..2, c/s); four-index class: all "
                          "shapes of 1-3 shells over (l 0..1, M 1..2, c/s); every construct_array_* path"}
