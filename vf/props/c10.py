"""C10 - the Cartesian->spherical matrix is the set of real regular solid harmonics."""
import itertools
import math

import numpy as np
from hypothesis import strategies as st

from vf.core import Verdict, lib, maxdev, mk_shell, sh
from vf.ref import r4
from vf.run import SubCheck

from gbasis.spherical import generate_transformation

RULE = ("Every l = 0..10 (all 121 functions) is enumerated in every run with the default conventions; each row is turned "
        "into an explicit polynomial and checked: harmonic by exact differentiation of the coefficient dictionary, "
        "orthonormal with the closed-form overlap of unit-normalised Cartesians, (C_m + i S_m)/(x+iy)^m real, independent "
        "of phi and positive near the north pole at Hypothesis-drawn points, documented default order, agreement with the "
        "recurrence oracle R4, left = right^T.  Conventions: all Cartesian orders and all label orders/signs for l <= 2 "
        "enumerated (drawn for l = 3..5); output must be the default matrix permuted/negated exactly.  Malformed "
        "conventions from a single-edit mutation grammar over valid label lists must be rejected; every sequence of 2l+1 labels over the "
        "signed alphabet (l <= 1 all 217; l = 2 every 16th of 100 000 in the quick tier, all in the thorough tier) must be honoured "
        "exactly if each pure function occurs once, and rejected otherwise.  Non-trivial: l >= 2, "
        "or a non-default convention, or a malformed set one edit away from a valid one.")
ASSUMPTIONS = ["closed-form same-shell overlap of normalised Cartesian Gaussians; R4 validated in vf.selftest"]


def poly_of_row(row, cart):
    return {tuple(int(x) for x in c): row[i] / math.sqrt(math.prod(r4.dfact(2 * a - 1) for a in c))
            for i, c in enumerate(cart) if row[i] != 0}


def laplacian(poly):
    out = {}
    for (a, b, c), v in poly.items():
        for ax, e in enumerate((a, b, c)):
            if e >= 2:
                k = [a, b, c]
                k[ax] -= 2
                out[tuple(k)] = out.get(tuple(k), 0.0) + v * e * (e - 1)
    return out


def peval(poly, p):
    return sum(v * p[0] ** a * p[1] ** b * p[2] ** c for (a, b, c), v in poly.items())


def judge_default(case):
    l = case["l"]
    v = Verdict(nontrivial=l >= 2, classes=["l-%d" % l])
    cart = r4.default_cart(l)
    labels = r4.default_sph(l)
    # the documented defaults published by a shell object
    s = mk_shell(sh(l, [0, 0, 0], [1.0], [[1.0]]))
    if [tuple(int(x) for x in c) for c in s.angmom_components_cart] != cart:
        return v.fail(f"l={l}: default Cartesian component order differs from the documented one")
    if list(s.angmom_components_sph) != labels:
        return v.fail(f"l={l}: default spherical order {list(s.angmom_components_sph)} differs from documented {labels}")
    ca = np.array(cart)
    Tl = lib(generate_transformation, l, ca, tuple(labels), "left")
    Tr = lib(generate_transformation, l, ca, tuple(labels), "right")
    if Tl.shape != (2 * l + 1, len(cart)):
        return v.fail(f"l={l}: left form has shape {Tl.shape}")
    if not np.array_equal(Tl, Tr.T):
        return v.fail(f"l={l}: left and right forms are not transposes")
    S = r4.cart_overlap_same_shell(cart)
    d = float(np.abs(Tl @ S @ Tl.T - np.eye(2 * l + 1)).max())
    v.info["orthonormality"] = d
    if not d <= 1e-10:
        return v.fail(f"l={l}: functions not orthonormal for unit-normalised Cartesians (deviation {d:.3e})")
    ref = r4.c2s_matrix(l, cart, labels)
    d, at = maxdev(Tl, ref, np.abs(ref).max())
    v.info["vs_recurrence"] = d
    if not d <= 1e-10:
        return v.fail(f"l={l}: row {labels[at[0]]} differs from the real regular solid harmonic by {d:.3e} at component {cart[at[1]]}")
    polys = {}
    for p, lab in enumerate(labels):
        poly = poly_of_row(Tl[p], cart)
        if any(sum(k) != l for k in poly):
            return v.fail(f"l={l}: {lab} not homogeneous of degree l")
        big = max(abs(x) for x in poly.values())
        lap = laplacian(poly)
        worst = max([abs(x) for x in lap.values()] or [0.0])
        v.info["laplacian"] = max(v.info.get("laplacian", 0.0), worst / big)
        if not worst <= 1e-10 * big * max(1, l * l):
            return v.fail(f"l={l}: {lab} is not harmonic (max Laplacian coefficient {worst:.3e})")
        polys[lab] = poly
    # cos/sin partnership and positive common factor near the pole
    for m in range(l + 1):
        C = polys["c%d" % m]
        Sn = polys.get("s%d" % m)
        for pt in case["points"]:
            rho, phi, z = pt
            for scale_rho in (1.0, 1e-3):
                r = rho * scale_rho
                ws = []
                nat = 0.0
                for dphi in (0.0, 1.3, 2.9):
                    p = (r * math.cos(phi + dphi), r * math.sin(phi + dphi), z)
                    val = complex(peval(C, p), peval(Sn, p) if Sn else 0.0)
                    ws.append(val / complex(p[0], p[1]) ** m)
                    # magnitude of the terms that are added up (the common factor itself vanishes on the nodal cones of the
                    # harmonic, e.g. 4 z^2 = rho^2 for l = 3, m = 1: judging relative to it would compare noise with noise)
                    nat = max(nat, sum(abs(c_) * abs(p[0]) ** a * abs(p[1]) ** b * abs(p[2]) ** c for (a, b, c), c_ in C.items()) / r ** m)
                mag = max(max(abs(w) for w in ws), nat) + 1e-300
                if max(abs(w.imag) for w in ws) > 1e-9 * mag:
                    return v.fail(f"l={l} m={m}: C+iS is not (x+iy)^m times a real factor at rho={r}, z={z}")
                if max(abs(w - ws[0]) for w in ws) > 1e-9 * mag:
                    return v.fail(f"l={l} m={m}: common factor depends on phi at rho={r}, z={z}")
                if scale_rho == 1e-3 and not ws[0].real > 0:
                    return v.fail(f"l={l} m={m}: common factor not positive near the north pole ({ws[0].real:.3e})")
    return v


def strat_default(shard):
    pt = st.tuples(st.floats(0.2, 1.5), st.floats(0, 6.28), st.floats(0.5, 2.0))
    return st.fixed_dictionaries({"l": st.just(shard["l"]), "points": st.lists(pt, min_size=2, max_size=4)})


def shards_default(tier):
    n = 2 if tier == "quick" else 40
    return [{"id": l, "l": l, "n": n, "cost": (l + 1) ** 3} for l in range(11)]


# ---- conventions ---------------------------------------------------------------------------------
def judge_conv(case):
    l = case["l"]
    cart = [tuple(c) for c in case["cart"]]
    labels = list(case["labels"])
    v = Verdict(nontrivial=True, classes=["l-%d" % l])
    dcart, dlab = r4.default_cart(l), r4.default_sph(l)
    base = lib(generate_transformation, l, np.array(dcart), tuple(dlab), "left")
    got = lib(generate_transformation, l, np.array(cart), tuple(labels) if case.get("as_tuple", True) else list(labels), "left")
    want = np.zeros_like(base)
    for p, lab in enumerate(labels):
        sign, kind, m = r4.parse_label(lab)
        row = base[dlab.index("%s%d" % (kind, m))]
        for c, comp in enumerate(cart):
            want[p, c] = sign * row[dcart.index(comp)]
    if not np.array_equal(got, want):
        d, at = maxdev(got, want)
        return v.fail(f"l={l}: convention cart={cart} labels={labels} not honoured exactly (deviation {d:.3e} at {at})")
    right = lib(generate_transformation, l, np.array(cart), tuple(labels), "right")
    if not np.array_equal(right, got.T):
        return v.fail(f"l={l}: left and right forms are not transposes for a custom convention")
    ref = r4.c2s_matrix(l, cart, labels)
    d, at = maxdev(got, ref, np.abs(ref).max())
    if not d <= 1e-10:
        return v.fail(f"l={l}: custom convention differs from the recurrence oracle by {d:.3e}")
    if any(x.startswith("-") for x in labels):
        v.classes.append("signed")
    return v


def conv_cases(shard):
    l = shard["l"]
    dcart, dlab = r4.default_cart(l), r4.default_sph(l)
    if shard["kind"] == "cart":
        for perm in itertools.permutations(dcart):
            yield {"l": l, "cart": [list(c) for c in perm], "labels": dlab}
    else:
        perms = list(itertools.permutations(dlab))
        for perm in perms[shard["lo"]:shard["hi"]]:
            for signs in itertools.product(("", "-"), repeat=len(perm)):
                yield {"l": l, "cart": [list(c) for c in dcart], "labels": [s + x for s, x in zip(signs, perm)]}


def shards_conv(tier):
    out = []
    for l in (0, 1, 2):
        out.append({"id": f"cart{l}", "l": l, "kind": "cart", "cost": 5})
        n = math.factorial(2 * l + 1)
        k = 8 if l == 2 else 1
        for i in range(k):
            out.append({"id": f"lab{l}-{i}", "l": l, "kind": "labels", "lo": i * n // k, "hi": (i + 1) * n // k, "cost": 20})
    return out


@st.composite
def conv_st(draw, l):
    dcart, dlab = r4.default_cart(l), r4.default_sph(l)
    cart = draw(st.permutations(dcart))
    lab = draw(st.permutations(dlab))
    lab = [("-" if draw(st.booleans()) else "") + x for x in lab]
    return {"l": l, "cart": [list(c) for c in cart], "labels": lab, "as_tuple": draw(st.booleans())}


def shards_conv_drawn(tier):
    n = 10 if tier == "quick" else 1000
    return [{"id": l, "l": l, "n": n} for l in (3, 4, 5, 6)]


# ---- malformed conventions ---------------------------------------------------------------------
EDITS = ["drop", "duplicate", "duplicate-opposite-sign", "m-too-large", "wrong-letter", "upper-case", "embedded-sign", "doubled-sign", "whitespace",
         "non-string", "extra", "plus-sign", "not-a-sequence", "float-m", "cart-duplicate-row", "cart-wrong-sum",
         "cart-wrong-shape", "bad-apply-from", "negative-l", "empty-label"]


@st.composite
def malformed_st(draw):
    l = draw(st.integers(0, 4))
    lab = list(draw(st.permutations(r4.default_sph(l))))
    lab = [("-" if draw(st.integers(0, 3)) == 0 else "") + x for x in lab]
    edit = draw(st.sampled_from(EDITS))
    i = draw(st.integers(0, len(lab) - 1))
    j = draw(st.integers(0, len(lab) - 1))
    return {"l": l, "labels": lab, "edit": edit, "i": i, "j": j}


def apply_edit(case):
    l, lab, i, j = case["l"], list(case["labels"]), case["i"], case["j"]
    cart = np.array(r4.default_cart(l))
    side = "left"
    e = case["edit"]
    bare = lab[i].lstrip("-")
    if e == "drop":
        lab.pop(i)
    elif e == "duplicate":
        if i == j or len(lab) < 2:
            return None
        lab[j] = lab[i]
    elif e == "duplicate-opposite-sign":
        if i == j or len(lab) < 2:
            return None
        lab[j] = bare if lab[i].startswith("-") else "-" + bare  # the same function twice, once with each sign
    elif e == "m-too-large":
        lab[i] = bare[0] + str(l + 1)
    elif e == "wrong-letter":
        lab[i] = "x" + bare[1:]
    elif e == "upper-case":
        lab[i] = bare.upper()
    elif e == "embedded-sign":
        lab[i] = bare[0] + "-" + bare[1:]
    elif e == "doubled-sign":
        lab[i] = "--" + bare
    elif e == "whitespace":
        lab[i] = " " + bare
    elif e == "non-string":
        lab[i] = int(bare[1:])
    elif e == "extra":
        lab.append("c0")
    elif e == "plus-sign":
        lab[i] = "+" + bare
    elif e == "not-a-sequence":
        lab = " ".join(lab)
    elif e == "float-m":
        lab[i] = bare + ".0"
    elif e == "empty-label":
        lab[i] = ""
    elif e == "cart-duplicate-row":
        if len(cart) < 2:
            return None
        cart = cart.copy()
        cart[j % len(cart)] = cart[(j + 1) % len(cart)]
    elif e == "cart-wrong-sum":
        cart = cart.copy()
        cart[j % len(cart), 0] += 1
    elif e == "cart-wrong-shape":
        cart = cart[:, :2]
    elif e == "bad-apply-from":
        side = "top"
    elif e == "negative-l":
        return (-1, cart, lab, side)
    return (l, cart, lab, side)


def judge_malformed(case):
    v = Verdict(nontrivial=True, classes=["edit-" + case["edit"]])
    args = apply_edit(case)
    if args is None:
        v.nontrivial = False
        return v
    l, cart, lab, side = args
    try:
        out = generate_transformation(l, cart, lab if isinstance(lab, str) else tuple(lab), side)
    except Exception:  # noqa: BLE001 - rejection is the required outcome
        return v
    return v.fail(f"invalid convention accepted: l={l}, labels={lab!r}, cart={cart.tolist()}, apply_from={side!r} "
                  f"returned an array of shape {np.shape(out)}", key="malformed-" + case["edit"])


def shards_malformed(tier):
    k, n = (8, 60) if tier == "quick" else (32, 2000)
    return [{"id": i, "n": n} for i in range(k)]


# ---- every sequence of 2l+1 labels over the signed alphabet ----------------------------------------------
def seq_cases(shard):
    """All sequences of length 2l+1 over {+,-} x {s_l..s_1, c_0..c_l} (l=1: 216, l=2: 100 000): a sequence is a valid convention
    iff every pure function occurs exactly once (with either sign); valid ones must be honoured exactly, all others rejected."""
    l = shard["l"]
    alphabet = [sg + x for x in r4.default_sph(l) for sg in ("", "-")]
    seqs = itertools.product(alphabet, repeat=2 * l + 1)
    for k, seq in enumerate(seqs):
        if k % shard["of"] == shard["part"]:
            yield {"l": l, "labels": list(seq)}


def judge_seq(case):
    l, labels = case["l"], case["labels"]
    bare = sorted(x.lstrip("-") for x in labels)
    valid = bare == sorted(r4.default_sph(l))
    v = Verdict(nontrivial=True, classes=["l-%d" % l, "valid" if valid else "invalid"])
    if valid:
        return judge_conv({"l": l, "cart": [list(c) for c in r4.default_cart(l)], "labels": labels})
    if len(set(bare)) < len(set(labels)):
        v.classes.append("same-function-both-signs")
    try:
        out = generate_transformation(l, np.array(r4.default_cart(l)), tuple(labels), "left")
    except Exception:  # noqa: BLE001 - rejection is the required outcome
        return v
    return v.fail(f"invalid convention accepted: l={l}, labels={labels!r} returned an array of shape {np.shape(out)}",
                  key="malformed-sequence")


def shards_seq(tier):
    out = [{"id": "l0", "l": 0, "of": 1, "part": 0, "cost": 1}, {"id": "l1", "l": 1, "of": 1, "part": 0, "cost": 10}]
    # l = 2: 100 000 sequences; the quick tier takes every 16th, the thorough tier all of them
    parts = 16
    for i in range(parts):
        if tier == "thorough" or i == 0:
            out.append({"id": f"l2-{i}", "l": 2, "of": parts, "part": i, "cost": 300})
    return out


SUBCHECKS = [
    SubCheck("default", judge_default, shards_default, strategy=strat_default),
    SubCheck("conventions", judge_conv, shards_conv, cases=conv_cases),
    SubCheck("conventions-drawn", judge_conv, shards_conv_drawn, strategy=lambda s: conv_st(s["l"])),
    SubCheck("malformed", judge_malformed, shards_malformed, strategy=lambda s: malformed_st()),
    SubCheck("label-sequences", judge_seq, shards_seq, cases=seq_cases),
]
EXHAUSTIVE = {"default": "every l = 0..10, every m (121 functions)",
              "conventions": "all Cartesian component orders and all label orders x signs for l <= 2",
              "label-sequences": "every sequence of 2l+1 signed labels for l <= 1 (l = 2: every 16th in the quick tier, all 100 000 in the thorough tier)"}
