"""C11 - index symmetries hold and reordering shells only reorders indices."""
import itertools

import numpy as np
from hypothesis import strategies as st

from vf import gen, quant
from vf.core import LibRaised, Verdict, lib, mk_basis, mk_shell, nfunc, case_hash
from vf.props.c04 import ill_list
from vf.props.c09 import env_st
from vf.props.c13 import KERNELS
from vf.run import SubCheck

from gbasis.integrals.electron_repulsion import ElectronRepulsionIntegral

RULE = ("(reorder) Hypothesis draws bases of 2-3 (thorough: 2-4) generalized shells with mixed types (ERI: 2-3 shells, l <= 2, exponents 0.1-10) "
        "and an environment; EVERY permutation of the shells is enumerated and every public quantity must change only by the "
        "corresponding block permutation of its basis indices (density matrix permuted for density-type functions); matrices of "
        "real symmetric operators must be symmetric, momentum-type ones Hermitian, the repulsion array eight-fold symmetric.  "
        "(orientation) the shell blocks of every two-index kernel class are computed in both orientations, and of the repulsion "
        "kernel in all eight, independently, and must be index-exchanged (conjugated for momentum-type) copies of each other - "
        "for generated quartets (exponents 0.1-10), for diffuse/very tight pairs (two-index kernels, generator of C08 'extreme-ratio'), for the enumerated equal-l corners of C03 with wide (diffuse+tight) contractions on either or both shells (point-charge and overlap kernels, l = 1..3 quick / 1..5 thorough, 75 pairs each), for many-primitive quartets (1-10 primitives per shell, recursion work space "
        "2^20..2^24.7, generator of C04 'heavy') and for the fixed list of ill-conditioned quartets of C04.  Non-trivial: a "
        "permutation that moves a shell across one of a different block size; an orientation pair with different l.")
ASSUMPTIONS = ["ERI relations judged at 2e-6 of the propagated magnitude (the accuracy C04 claims bounds how well two evaluations agree)"]

PERMS8 = [(0, 1, 2, 3), (1, 0, 2, 3), (0, 1, 3, 2), (1, 0, 3, 2), (2, 3, 0, 1), (3, 2, 0, 1), (2, 3, 1, 0), (3, 2, 1, 0)]


@st.composite
def case_st(draw, eri, nmax=3):
    if eri:
        shells = draw(gen.basis(nmin=2, nmax=3, lmax=2, kmax=2, mmax=2, exp_lo=0.1, exp_hi=10.0, halves=(0.5, 2.0)))
    else:
        shells = draw(gen.basis(nmin=2, nmax=nmax, lmax=3, kmax=3, mmax=3, exp_lo=0.05, exp_hi=200.0, halves=(0.5, 2.0, 5.0)))
    env = draw(env_st([s["coord"] for s in shells], nmax_pts=3))
    n = sum(nfunc(s) for s in shells)
    G, _ = draw(gen.sym_matrix(n))
    return {"shells": shells, "env": env, "eri": eri, "G": G}


def judge(case):
    shells = case["shells"]
    env = quant.with_screen_band(dict(case["env"]), shells, int(case_hash(shells), 16) >> 7)
    v = Verdict()
    quants = quant.ERI if case["eri"] else quant.INDEXED + quant.DENSITY
    b0 = mk_basis(shells)
    G = np.array(case["G"], dtype=float)
    sizes = [nfunc(s) for s in shells]
    off = np.cumsum([0] + sizes)
    v.nontrivial = len(set(sizes)) >= 2
    base = {}
    sc0 = quant.Scales(b0, env, shells=shells)
    for q in quants:
        if not q.density:
            base[q.name] = a = lib(q, b0, env)
            nat = sc0.nat(q, a)
            # index symmetries of the result itself
            if q.name in ("overlap_integral", "overlap_integral[tol_screen]", "kinetic_energy_integral", "moment_integral", "point_charge_integral",
                          "nuclear_electron_attraction_integral"):
                d, at = quant.relation_dev(np.swapaxes(a, 0, 1), a, [], (), nat=nat)
                if not d <= q.tol:
                    return v.fail(f"{q.name} is not symmetric: {d:.3e} at {at}")
            if q.name in ("momentum_integral", "angular_momentum_integral"):
                d, at = quant.relation_dev(np.conj(np.swapaxes(a, 0, 1)), a, [], (), nat=nat)
                if not d <= q.tol:
                    return v.fail(f"{q.name} is not Hermitian: {d:.3e} at {at}")
            if q.eri:
                c = a if "chemist" in q.name else np.transpose(a, (0, 2, 1, 3))
                for p in PERMS8[1:]:
                    d, at = quant.relation_dev(np.transpose(c, p), c, [], (), nat=np.transpose(nat, (0, 2, 1, 3)) if "phys" in q.name else nat)
                    if not d <= q.tol:
                        return v.fail(f"{q.name}: eight-fold symmetry broken for index permutation {p}: {d:.3e} at {at}")
    for perm in list(itertools.permutations(range(len(shells))))[1:]:
        bp = [b0[k] for k in perm]
        idx = np.concatenate([np.arange(off[k], off[k + 1]) for k in perm])
        P = np.eye(off[-1])[idx]
        for q in quants:
            if q.density:
                Gp = P @ G @ P.T
                got = lib(q, bp, env, None, Gp)
                want = lib(q, b0, env, None, G)
                d, at = quant.same_dev(got, want, mag=sc0.mag(q, G))
            else:
                got = lib(q, bp, env)
                d, at = quant.relation_dev(got, base[q.name], [P] * len(q.axes), q.axes, nat=sc0.nat(q, base[q.name]))
            v.info["rel_dev"] = max(v.info.get("rel_dev", 0.0), d)
            if not d <= q.tol:
                return v.fail(f"{q.name}: listing the shells in order {perm} changes the result beyond the index permutation: "
                              f"{d:.3e} at {at}")
    v.classes.append("shells-%d" % len(shells))
    return v


def shards(tier):
    k, n = (12, 2) if tier == "quick" else (48, 10)
    ke, ne = (6, 2) if tier == "quick" else (24, 8)
    return ([{"id": f"q{i}", "n": n, "eri": False, "nmax": 3 if tier == "quick" else 4, "cost": 30 * n} for i in range(k)]
            + [{"id": f"e{i}", "n": ne, "eri": True, "cost": 60 * ne} for i in range(ke)])


# ---- block orientations ---------------------------------------------------------------------------
@st.composite
def orient_case(draw):
    shells = draw(gen.basis(nmin=4, nmax=4, lmax=3, kmax=3, mmax=2, exp_lo=0.1, exp_hi=10.0, halves=(0.5, 2.0),
                            types=("cartesian",)))
    for s in shells:
        if s["l"] >= 3:
            s["exps"] = [min(5.0, max(0.2, e)) for e in s["exps"]]
            s["coeffs"], _rep = gen.repair_cancellation(s["l"], s["exps"], s["coeffs"])  # clamped exponents may coincide
    from vf.props import c04
    f = max(s["l"] for s in shells) >= 3
    shells = draw(c04.same_contraction(shells, 0.2 if f else 0.1, 5.0 if f else 10.0))
    env = draw(env_st([s["coord"] for s in shells], nmax_pts=3))
    return {"shells": shells, "env": env}


def _block_nat(name, sl, env):
    """Natural magnitude of a two-index kernel block from the diagonal (same-shell) overlap and kinetic blocks."""
    def mx(idx, i):
        return np.abs(lib(KERNELS[idx][2], [sl[i], sl[i]], env)).max()

    ov = np.sqrt(mx(0, 0) * mx(0, 1))
    kin = np.sqrt(mx(1, 0) * mx(1, 1))
    if name == "Overlap":
        return ov
    if name == "KineticEnergyIntegral":
        return kin
    mom = np.sqrt(2 * ov * kin)
    if name == "MomentumIntegral":
        return mom
    if name == "AngularMomentumIntegral":
        return mom * (2 + np.linalg.norm(sl[0].coord) + np.linalg.norm(sl[1].coord))
    if name == "Moment":
        o = np.array(env["origin"])
        ext = 2 + np.linalg.norm(sl[0].coord - o) + np.linalg.norm(sl[1].coord - o)
        return ov * ext ** np.array(env["orders"], dtype=int).reshape(-1, 3).sum(axis=1)
    idx = [k[0] for k in KERNELS].index(name)
    return np.sqrt(mx(idx, 0) * mx(idx, 1))


def judge_orient(case):
    shells = case["shells"]
    env = case["env"]
    v = Verdict(nontrivial=len({s["l"] for s in shells[:2]}) == 2, classes=["l%d-l%d" % (shells[0]["l"], shells[1]["l"])])
    if shells[0].get("same_contraction"):
        v.classes.append("same-contraction")
    sl = [mk_shell(s) for s in shells]
    for name, arity, call in KERNELS:
        if arity != 2 or (case.get("kernels") and name not in case["kernels"]):
            continue
        a = lib(call, [sl[0], sl[1]], env)
        b = lib(call, [sl[1], sl[0]], env)
        nat = _block_nat(name, sl, env)
        bt = np.transpose(b, (2, 3, 0, 1) + tuple(range(4, b.ndim)))
        if name in ("MomentumIntegral", "AngularMomentumIntegral"):
            bt = np.conj(bt)
        d, at = quant.relation_dev(bt, a, [], (), nat=nat)
        if not d <= (1e-8 if name == "PointChargeIntegral" else 1e-9):
            return v.fail(f"{name}.construct_array_contraction(s1,s0) is not the index-exchanged"
                          f"{' conjugate' if 'omentum' in name else ''} copy of (s0,s1): {d:.3e} at {at}")
    if case.get("eri", True):
        return judge_eri_orient(v, shells)
    return v


def judge_eri_orient(v, shells, label=None):
    sl = [mk_shell(s) for s in shells]

    def block(*idx):
        out = lib(ElectronRepulsionIntegral.construct_array_contraction, *[sl[k] for k in idx])
        want = sum(((sl[k].num_seg_cont, sl[k].num_cart) for k in idx), ())
        if out.shape != want:
            raise LibRaised(f"ERI block of shells {idx} has shape {out.shape}, expected (M, L) per shell = {want}")
        return out

    a = block(0, 1, 2, 3)
    q1 = np.sqrt(np.abs(np.einsum("manbmanb->manb", block(0, 1, 0, 1))))
    q2 = np.sqrt(np.abs(np.einsum("manbmanb->manb", block(2, 3, 2, 3))))
    nat = q1[:, :, :, :, None, None, None, None] * q2[None, None, None, None, :, :, :, :] + 1e-30
    for p in PERMS8[1:]:
        b = block(*p)
        # b[axes of shell p[0], p[1], ...] -> bring back to the order 0,1,2,3
        inv = [p.index(k) for k in range(4)]
        axes = sum(((2 * i, 2 * i + 1) for i in inv), ())
        bt = np.transpose(b, axes)
        d, at = quant.relation_dev(bt, a, [], (), floor=1.0, nat=nat)
        v.info["eri_orient_dev"] = max(v.info.get("eri_orient_dev", 0.0), d)
        if not d <= 2e-6:
            return v.fail(f"ERI block {label or [s['l'] for s in shells]}: orientation {p} computed independently differs by "
                          f"{d:.3e} of the Schwarz scale at {at}", key=label)
    return v


def judge_ill(case):
    v = Verdict(nontrivial=True, classes=["tight-diffuse"])
    return judge_eri_orient(v, case["shells"], label=case["label"].replace(" ", "_"))


def judge_heavy(case):
    """Many-primitive quartets (strategy shared with C04 'heavy'): the eight orientations computed independently must agree."""
    from vf.props import c04
    shells = case["shells"]
    ks = [len(s["exps"]) for s in shells]
    w = c04.workspace([s["l"] for s in shells], ks)
    v = Verdict(nontrivial=max(ks) >= 3, classes=["heavy", "workspace-2^%d" % int(np.log2(max(w, 1)))])
    return judge_eri_orient(v, shells)


def shards_heavy(tier):
    bands = [(20, 22), (22, 23), (23, 24), (24, 24.7)]
    n = 1 if tier == "quick" else 8
    return [{"id": f"{a}-{b}-{i}", "lo": a, "hi": b, "n": n, "cost": 3000 * n} for a, b in bands for i in range(2)]


def heavy_strategy(shard):
    from vf.props import c04
    return c04.heavy_st(shard["lo"], shard["hi"])


@st.composite
def orient_extreme_case(draw, la, lb):
    """Two-index kernels in both orientations for a diffuse and a very tight shell (generator of C08 'extreme-ratio': exponent
    ratios up to 1e7), where a recursion might be tempted to run on the other shell."""
    from vf.props import c08
    c = draw(c08.extreme_st(la, lb))
    env = draw(env_st([s["coord"] for s in c["shells"]], nmax_pts=2))
    return {"shells": c["shells"], "env": env, "eri": False, "extreme": c["extreme"]}


def shards_orient_extreme(tier):
    n = 1 if tier == "quick" else 12
    return [{"id": f"{la}{lb}", "la": la, "lb": lb, "n": n, "cost": 20 * n} for la in range(4) for lb in range(4)]


def orient_wide_cases(shard):
    """Point-charge and overlap blocks in both orientations for the enumerated corners of C03 (pairs of EQUAL angular momentum,
    every combination of {diffuse, tight, middle, diffuse+tight contraction in either primitive order} on the two shells, three
    separations, charges on both centres and off the axis): neither the L_a >= L_b rule nor the exponents of a single primitive
    decide which shell the recursion runs on, and the primitives of a wide contraction may be treated in groups."""
    from vf.props import c03
    for c in c03.corner_cases({"l": shard["l"]}):
        r = c["coords"][1]
        env = {"origin": [0.1, -0.2, 0.3], "orders": [[1, 0, 1]], "points": [[0.0, 0.0, 0.0]], "deriv_order": [0, 0, 0],
               "nuc_coords": c["coords"] + [[0.37 * r[1], -0.21 * r[2], 0.5 * r[2]]], "nuc_charges": c["charges"] + [1.5]}
        shells = [dict(c["shells"][0]), dict(c["shells"][1])]
        if c["extreme"].count("wide") == 2:  # two segments on the second shell: the block is not symmetric in its segment indices either
            shells[1]["coeffs"] = [[0.7, 0.2], [0.3, -0.9]]
            # unequal ranges (tight primitive of the second shell at a quarter of the cap, its diffuse one 1.5 times wider): with
            # equal ranges neither shell is "the tighter one" and no order is ever exchanged
            hi_ = max(shells[1]["exps"])
            shells[1]["exps"] = [e / 4 if e == hi_ else e * 1.5 for e in shells[1]["exps"]]
        yield {"shells": shells, "env": env, "eri": False, "extreme": c["extreme"], "kernels": ["PointChargeIntegral", "Overlap"]}


def shards_orient_wide(tier):
    return [{"id": f"l{l}", "l": l, "cost": 75 * (1 + 2 * l) ** 2} for l in ((1, 2, 3) if tier == "quick" else (1, 2, 3, 4, 5))]


def shards_orient(tier):
    k, n = (16, 2) if tier == "quick" else (48, 12)
    return [{"id": i, "n": n, "cost": 40 * n} for i in range(k)]


def shards_ill(tier):
    n = len(ill_list())
    k = 16
    return [{"id": i, "lo": i * n // k, "hi": (i + 1) * n // k, "cost": 50} for i in range(k)]


SUBCHECKS = [
    SubCheck("reorder", judge, shards, strategy=lambda s: case_st(s["eri"], s.get("nmax", 3))),
    SubCheck("orientation", judge_orient, shards_orient, strategy=lambda s: orient_case()),
    SubCheck("orientation-extreme", judge_orient, shards_orient_extreme, strategy=lambda s: orient_extreme_case(s["la"], s["lb"])),
    SubCheck("orientation-wide", judge_orient, shards_orient_wide, cases=orient_wide_cases),
    SubCheck("orientation-heavy", judge_heavy, shards_heavy, strategy=heavy_strategy),
    SubCheck("orientation-illcond", judge_ill, shards_ill, cases=lambda s: ill_list()[s["lo"]:s["hi"]][::2]),
]
EXHAUSTIVE = {"reorder": "every permutation of the shells of each generated basis",
              "orientation": "both orientations of every two-index kernel block and all eight of the repulsion block"}
