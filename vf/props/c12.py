"""C12 - results are covariant under rigid motions of the whole system."""
import numpy as np
from hypothesis import strategies as st

from vf import gen, quant
from vf.core import Verdict, case_hash, lib, mk_basis, nfunc
from vf.props.c09 import env_st
from vf.ref import r3, r6
from vf.run import SubCheck

RULE = ("Hypothesis draws a system (basis of 1-3 generalized mixed-type shells, l 0..4 (ERI: l <= 2, exponents 0.1-10), points, "
        "point charges / nuclei, moment origin, density matrix) and a rigid motion r' = Q r + t: ALL 48 signed axis permutations "
        "are enumerated as shards (with a drawn translation up to 10 bohr), plus drawn general orthogonal matrices (QR of a random "
        "matrix, det +-1).  Oracle (metamorphic, R6 representation matrices D): values phi(r) = D phi'(r'); gradients as vectors, "
        "second and third derivatives as rank-2/3 tensors; "
        "arbitrary derivative orders and moments under signed permutations with permuted order triples and signs; S, T, V (charges "
        "moved), ERI: A = (D x ..) A'; momentum as a vector, angular momentum as a pseudo-vector with L = det(Q) Q^T (L' - t x p'); "
        "moments of total order <= 2 as tensors under general rotations; density, Laplacian, t+, ESP invariant; density gradient / "
        "Ehrenfest force as vectors; density Hessian / stress tensor / Ehrenfest Hessian as rank-2 tensors.  Non-trivial: the "
        "motion changes at least two coordinates of some centre and the basis has l >= 2.")
ASSUMPTIONS = ["representation matrices from vf/ref R6 + R4"]
SP = r6.signed_permutations()


@st.composite
def case_st(draw, qidx, eri):
    if eri:
        shells = draw(gen.basis(nmin=1, nmax=2, lmax=2, kmax=2, mmax=2, exp_lo=0.1, exp_hi=10.0, halves=(0.5, 2.0)))
    else:
        shells = draw(gen.basis(nmin=1, nmax=3, lmax=4, kmax=3, mmax=2, exp_lo=0.05, exp_hi=100.0, halves=(0.5, 2.0, 5.0),
                                first_ls=(draw(st.integers(2, 4)),)))
        if all(abs(x) < 1e-6 for x in shells[0]["coord"][:2]):
            shells[0]["coord"] = [0.7, -0.4, shells[0]["coord"][2]]
    env = draw(env_st([s["coord"] for s in shells], nmax_pts=3))
    n = sum(nfunc(s) for s in shells)
    G, _ = draw(gen.sym_matrix(n))
    if qidx is None:
        A = [[draw(st.floats(-1, 1, allow_nan=False)) for _ in range(3)] for _ in range(3)]
        Q = None
    else:
        A, Q = None, qidx
    tmode = draw(st.integers(0, 2))
    t = [0.0, 0.0, 0.0] if tmode == 0 else [draw(st.floats(-10, 10, allow_nan=False)) for _ in range(3)]
    return {"shells": shells, "env": env, "G": G, "A": A, "qidx": Q, "t": t, "eri": eri}


def motion(case):
    if case["qidx"] is not None:
        return SP[case["qidx"]].copy(), True
    A = np.array(case["A"], dtype=float)
    if abs(np.linalg.det(A)) < 1e-3:
        A = A + np.eye(3)
    Q, Rm = np.linalg.qr(A)
    return Q * np.sign(np.diag(Rm))[None, :], False


def mv(x, Q, t):
    return (np.asarray(x, dtype=float).reshape(-1, 3) @ Q.T + t[None, :]).tolist()


def judge(case):
    shells = case["shells"]
    # the original system's points in a caller's array form (layout, integer grid, float32 grid); the moved points are plain float64
    env, form = quant.with_point_form(dict(case["env"]), int(case_hash({"s": case["shells"], "p": case["env"]["points"]}), 16))
    env = quant.with_screen_band(env, shells, int(case_hash(shells), 16) >> 7)
    Q, exact = motion(case)
    t = np.array(case["t"], dtype=float)
    det = float(np.round(np.linalg.det(Q)))
    v = Verdict(classes=["signed-permutation" if exact else "general-orthogonal", "det%+d" % det,
                         "translated" if np.any(t != 0) else "origin-fixed", "points-" + form]
                + (["screening-band"] if env.get("tol_screen_band") else []))
    moved = [dict(s, coord=mv([s["coord"]], Q, t)[0]) for s in shells]
    env2 = dict(env, points_form=None, points=mv(env["points"], Q, t), nuc_coords=mv(env["nuc_coords"], Q, t), origin=mv([env["origin"]], Q, t)[0])
    changed = any(sum(abs(a - b) > 1e-12 for a, b in zip(s["coord"], m["coord"])) >= 2 for s, m in zip(shells, moved))
    v.nontrivial = changed and max(s["l"] for s in shells) >= 2
    R = r3.refs(shells)
    D = r6.basis_matrix(Q, R)
    b0, b1 = mk_basis(shells), mk_basis(moved)
    sc = quant.Scales(b1, env2, shells=moved)
    G = np.array(case["G"], dtype=float)
    G1 = D.T @ G @ D

    def rel(name, got, base, axes_mats, nat=None, tol=1e-9):
        d, at = quant.relation_dev(got, base, [m for m, _ in axes_mats], [a for _, a in axes_mats], nat=nat)
        v.info["rel_dev"] = max(v.info.get("rel_dev", 0.0), d * 1e-9 / tol)
        if not d <= tol:
            return v.fail(f"{name}: not covariant under Q={np.round(Q, 6).tolist()}, t={t.tolist()}: deviation {d:.3e} at {at}")
        return None

    QT = Q.T
    if case["eri"]:
        for q in quant.ERI:
            base = lib(q, b1, env2)
            if rel(q.name, lib(q, b0, env), base, [(D, 0), (D, 1), (D, 2), (D, 3)], nat=sc.nat(q, base), tol=q.tol):
                return v
        return v
    B = quant.BYNAME
    # one-index
    q = B["evaluate_basis"]
    base = lib(q, b1, env2)
    if rel(q.name, lib(q, b0, env), base, [(D, 0)], nat=sc.nat(q, base)):
        return v
    from gbasis.evals.eval_deriv import evaluate_deriv_basis
    p0, p1 = np.array(env["points"]), np.array(env2["points"])
    g1 = np.stack([lib(evaluate_deriv_basis, b1, p1, np.eye(3, dtype=int)[j]) for j in range(3)], axis=-1)  # [c, n, j]
    g0 = np.stack([lib(evaluate_deriv_basis, b0, p0, np.eye(3, dtype=int)[k]) for k in range(3)], axis=-1)
    nat1 = sum(sc.neighbourhood(e_) for e_ in np.eye(3, dtype=int))[:, :, None] * np.ones(3)
    if rel("gradient of the basis functions", g0, g1, [(D, 0), (QT, 2)], nat=nat1):
        return v
    # second and third derivatives of the basis functions as rank-2 / rank-3 tensors (any orthogonal Q)
    import itertools

    for rank in (2, 3):
        def tensor(b, p, rank=rank):
            out = np.zeros((g1.shape[0], len(p)) + (3,) * rank)
            for idx in itertools.combinations_with_replacement(range(3), rank):
                o = np.zeros(3, dtype=int)
                for k in idx:
                    o[k] += 1
                val = lib(evaluate_deriv_basis, b, p, o)
                for perm in set(itertools.permutations(idx)):
                    out[(slice(None), slice(None)) + perm] = val
            return out

        t1, t0 = tensor(b1, p1), tensor(b0, p0)
        natk = sum(sc.neighbourhood(o) for o in itertools.product(range(rank + 1), repeat=3) if sum(o) == rank)
        if rel(f"rank-{rank} derivative tensor of the basis functions", t0, t1, [(D, 0)] + [(QT, 2 + k) for k in range(rank)],
               nat=natk.reshape(natk.shape + (1,) * rank) * np.ones(t1.shape)):
            return v
    if exact:
        o1 = np.array(env["deriv_order"], dtype=int)  # order in the moved frame
        perm = [int(np.argmax(np.abs(Q[j]))) for j in range(3)]
        sg = [Q[j, perm[j]] for j in range(3)]
        o0 = np.zeros(3, dtype=int)
        for j in range(3):
            o0[perm[j]] = o1[j]
        sign = float(np.prod([sg[j] ** o1[j] for j in range(3)]))
        a1 = lib(evaluate_deriv_basis, b1, p1, o1)
        a0 = lib(evaluate_deriv_basis, b0, p0, o0)
        if rel(f"evaluate_deriv_basis order {o0.tolist()} vs moved order {o1.tolist()}", a0, sign * a1, [(D, 0)],
               nat=sc.neighbourhood(o1)):
            return v
        # moments of any order: permuted order triples and signs
        q = B["moment_integral"]
        ords1 = np.array(env["orders"], dtype=int).reshape(-1, 3)
        ords0 = np.zeros_like(ords1)
        signs = np.ones(len(ords1))
        for i, o in enumerate(ords1):
            for j in range(3):
                ords0[i, perm[j]] = o[j]
            signs[i] = np.prod([sg[j] ** o[j] for j in range(3)])
        base = lib(q, b1, env2)
        got = lib(q, b0, dict(env, orders=ords0.tolist()))
        if rel("moment_integral (signed permutation, all orders)", got, base * signs[None, None, :], [(D, 0), (D, 1)],
               nat=sc.nat(q, base)):
            return v
    # moments of total order <= 2 as tensors
    from gbasis.integrals.moment import moment_integral
    e = np.eye(3, dtype=int)
    o_1 = np.array(env["origin"]), np.array(env2["origin"])
    m1 = lib(moment_integral, b1, o_1[1], e)
    m0 = lib(moment_integral, b0, o_1[0], e)
    pf = sc._pf or quant.per_function_scales(b1, env2)
    ext = (1 + pf[1][:, None] + pf[1][None, :])
    if rel("dipole moments as a vector", m0, m1, [(D, 0), (D, 1), (QT, 2)], nat=ext[:, :, None] * np.ones(3)):
        return v
    pairs = [(i, j) for i in range(3) for j in range(3)]
    o2 = np.array([e[i] + e[j] for i, j in pairs])
    s1 = lib(moment_integral, b1, o_1[1], o2).reshape(m1.shape[0], m1.shape[1], 3, 3)
    s0 = lib(moment_integral, b0, o_1[0], o2).reshape(m1.shape[0], m1.shape[1], 3, 3)
    if rel("second moments as a rank-2 tensor", s0, s1, [(D, 0), (D, 1), (QT, 2), (QT, 3)], nat=(ext ** 2)[:, :, None, None] * np.ones((3, 3))):
        return v
    # two-index invariant operators
    for name in ("overlap_integral", "overlap_integral[tol_screen]", "kinetic_energy_integral", "point_charge_integral",
                 "nuclear_electron_attraction_integral"):
        q = B[name]
        base = lib(q, b1, env2)
        if rel(name, lib(q, b0, env), base, [(D, 0), (D, 1)], nat=sc.nat(q, base), tol=q.tol):
            return v
    # momentum (vector) and angular momentum (pseudo-vector about the coordinate origin, shifted by t x p)
    q = B["momentum_integral"]
    P1 = lib(q, b1, env2)
    if rel("momentum_integral", lib(q, b0, env), P1, [(D, 0), (D, 1), (QT, 2)], nat=sc.nat(q, P1)):
        return v
    q = B["angular_momentum_integral"]
    L1 = lib(q, b1, env2)
    txp = np.stack([t[1] * P1[:, :, 2] - t[2] * P1[:, :, 1], t[2] * P1[:, :, 0] - t[0] * P1[:, :, 2],
                    t[0] * P1[:, :, 1] - t[1] * P1[:, :, 0]], axis=-1)
    natL = sc.nat(q, L1) + np.linalg.norm(t) * sc.nat(B["momentum_integral"], P1)
    if rel("angular_momentum_integral (L = det Q Q^T (L' - t x p'))", lib(q, b0, env), det * (L1 - txp),
           [(D, 0), (D, 1), (QT, 2)], nat=natL):
        return v
    # density-type quantities
    for q in quant.DENSITY:
        if q.name == "evaluate_deriv_density":
            continue
        a0 = lib(q, b0, env, None, G)
        a1 = lib(q, b1, env2, None, G1)
        mag = sc.mag(q, G1)
        mats = [(QT, ax) for ax in range(1, a1.ndim)]
        nat = mag.reshape(mag.shape + (1,) * (a1.ndim - 1)) * np.ones(a1.shape) * 0.1
        if rel(q.name, a0, a1, mats, nat=nat, tol=q.tol):
            return v
    # the same with a transformation: orbitals W f of the original system are the orbitals (W D) f' of the moved one (a fixed
    # square, non-symmetric W; the density matrix then refers to the orbitals and is the same on both sides)
    n = G.shape[0]
    W = np.eye(n) + 0.4 * np.sin(np.add.outer(1.7 * np.arange(n), 0.9 * np.arange(n)) + 0.3)
    W1 = W @ D
    Geff1 = W1.T @ G @ W1
    for q in quant.DENSITY:
        if q.name == "evaluate_deriv_density":
            continue
        a0 = lib(q, b0, env, W, G)
        a1 = lib(q, b1, env2, W1, G)
        mag = sc.mag(q, Geff1)
        mats = [(QT, ax) for ax in range(1, a1.ndim)]
        nat = mag.reshape(mag.shape + (1,) * (a1.ndim - 1)) * np.ones(a1.shape) * 0.1
        if rel(q.name + " (with transform)", a0, a1, mats, nat=nat, tol=q.tol):
            return v
    v.classes.append("density-with-transform")
    return v


def shards(tier):
    n = 1 if tier == "quick" else 6
    out = [{"id": f"sp{i}", "qidx": i, "eri": False, "n": n, "cost": 30 * n} for i in range(48)]
    out += [{"id": f"gen{i}", "qidx": None, "eri": False, "n": 2 if tier == "quick" else 12, "cost": 40} for i in range(8 if tier == "quick" else 32)]
    out += [{"id": f"esp{i}", "qidx": i * 5 % 48, "eri": True, "n": 1 if tier == "quick" else 4, "cost": 40} for i in range(6 if tier == "quick" else 48)]
    out += [{"id": f"egen{i}", "qidx": None, "eri": True, "n": 1 if tier == "quick" else 6, "cost": 40} for i in range(4 if tier == "quick" else 16)]
    return out


SUBCHECKS = [SubCheck("motion", judge, shards, strategy=lambda s: case_st(s["qidx"], s["eri"]))]
EXHAUSTIVE = {"signed_permutations": "all 48 signed axis permutations (one shard each)"}
