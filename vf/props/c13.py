"""C13 - contractions behave as the linear combinations they denote."""
import itertools

import numpy as np
from hypothesis import strategies as st

from vf import gen, quant
from vf.core import Verdict, lib, mk_basis, mk_shell, nfunc, case_hash
from vf.props.c09 import env_st
from vf.run import SubCheck

from gbasis.evals.eval import Eval
from gbasis.evals.eval_deriv import EvalDeriv
from gbasis.integrals.angular_momentum import AngularMomentumIntegral
from gbasis.integrals.electron_repulsion import ElectronRepulsionIntegral
from gbasis.integrals.kinetic_energy import KineticEnergyIntegral
from gbasis.integrals.moment import Moment
from gbasis.integrals.momentum import MomentumIntegral
from gbasis.integrals.overlap import Overlap
from gbasis.integrals.point_charge import PointChargeIntegral

RULE = ("Hypothesis draws a basis of 1-2 (thorough: 1-3) generalized mixed-type shells (K and M up to 3, l 0..3; thorough: up to 4; ERI: l <= 2, exponents 0.1-10), an "
        "environment and a rewriting of one shell: (split) the M-column shell into M single-column shells; (permute) every "
        "permutation of its primitives (<= 24, enumerated inside the case); (split-prim) one primitive into two with coefficient "
        "shares (t, 1-t), t in -0.5..1.5; (scale) one column multiplied by s, |s| log-uniform 1e-6..1e6, either sign.  Oracle "
        "(metamorphic): every public quantity on the rewritten basis equals that on the original, a negative factor flipping the "
        "sign of exactly that column's functions (density matrix pulled back for density-type functions).  (linearity) the "
        "un-normalised shell blocks of every kernel class are additive and homogeneous in each shell's coefficient matrix.  "
        "Non-trivial: M >= 2 with K >= 2 and l >= 1, or a scale factor outside [1e-2, 1e2].")
ASSUMPTIONS = ["contractions that cancel below 2% of their absolute self-overlap are outside the domain (also after the rewriting)"]
KINDS = ["split", "permute", "split-prim", "scale"]


@st.composite
def case_st(draw, eri, kind, big=False):
    if eri:
        shells = draw(gen.basis(nmin=1, nmax=2, lmax=2, kmax=3, mmax=2, exp_lo=0.1, exp_hi=10.0, halves=(0.5, 2.0)))
    else:
        shells = draw(gen.basis(nmin=1, nmax=3 if big else 2, lmax=4 if big else 3, kmax=4 if big else 3, mmax=4 if big else 3,
                                exp_lo=0.05, exp_hi=200.0, halves=(0.5, 2.0, 5.0)))
    env = draw(env_st([s["coord"] for s in shells], nmax_pts=3))
    i = draw(st.integers(0, len(shells) - 1))
    K, M = len(shells[i]["exps"]), len(shells[i]["coeffs"][0])
    n = sum(nfunc(s) for s in shells)
    G, _ = draw(gen.sym_matrix(n))
    mag = draw(gen.log_uniform(1e-6, 1e6))
    return {"shells": shells, "env": env, "eri": eri, "kind": kind, "shell": i, "k": draw(st.integers(0, K - 1)),
            "t": draw(st.floats(-0.5, 1.5, allow_nan=False)), "col": draw(st.integers(0, M - 1)),
            "s": mag if draw(st.booleans()) else -mag, "G": G}


def rewrites(case):
    """Yield (label, rewritten shells, sign vector over the original function list)."""
    shells = case["shells"]
    i = case["shell"]
    s = shells[i]
    K, M = len(s["exps"]), len(s["coeffs"][0])
    n = sum(nfunc(x) for x in shells)
    ones = np.ones(n)
    if case["kind"] == "split":
        new = [dict(s, coeffs=[[row[m]] for row in s["coeffs"]]) for m in range(M)]
        yield "split into single-column shells", shells[:i] + new + shells[i + 1:], ones
    elif case["kind"] == "permute":
        for perm in list(itertools.permutations(range(K)))[1:]:
            yield f"primitives permuted {perm}", shells[:i] + [dict(s, exps=[s["exps"][p] for p in perm],
                                                                    coeffs=[s["coeffs"][p] for p in perm])] + shells[i + 1:], ones
    elif case["kind"] == "split-prim":
        k, t = case["k"], case["t"]
        ex = s["exps"][:k + 1] + [s["exps"][k]] + s["exps"][k + 1:]
        co = s["coeffs"][:k] + [[t * c for c in s["coeffs"][k]], [(1 - t) * c for c in s["coeffs"][k]]] + s["coeffs"][k + 1:]
        yield f"primitive {k} split with shares ({t}, {1 - t})", shells[:i] + [dict(s, exps=ex, coeffs=co)] + shells[i + 1:], ones
    else:
        j, f = case["col"], case["s"]
        co = [[c * (f if m == j else 1.0) for m, c in enumerate(row)] for row in s["coeffs"]]
        sign = ones.copy()
        if f < 0:
            off = sum(nfunc(x) for x in shells[:i])
            per = nfunc(s) // M
            sign[off + j * per: off + (j + 1) * per] = -1.0
        yield f"column {j} scaled by {f}", shells[:i] + [dict(s, coeffs=co)] + shells[i + 1:], sign


def judge(case):
    shells = case["shells"]
    env = quant.with_screen_band(dict(case["env"]), shells, int(case_hash(shells), 16) >> 7)
    s = shells[case["shell"]]
    K, M = len(s["exps"]), len(s["coeffs"][0])
    v = Verdict(classes=[case["kind"]])
    v.nontrivial = (M >= 2 and K >= 2 and s["l"] >= 1) or (case["kind"] == "scale" and not 1e-2 <= abs(case["s"]) <= 1e2)
    if case["kind"] == "permute" and K == 1:
        v.nontrivial = False
    quants = quant.ERI[:1] if case["eri"] else quant.INDEXED + quant.DENSITY
    b0 = mk_basis(shells)
    G = np.array(case["G"], dtype=float)
    base = {}
    sc0 = quant.Scales(b0, env, shells=shells)
    for label, new_shells, sign in rewrites(case):
        b1 = mk_basis(new_shells)
        D = np.diag(sign)
        for q in quants:
            if q.density:
                got = lib(q, b1, env, None, G)
                want = lib(q, b0, env, None, D @ G @ D)
                d, at = quant.same_dev(got, want, mag=sc0.mag(q, G))
            else:
                if q.name not in base:
                    base[q.name] = lib(q, b0, env)
                got = lib(q, b1, env)
                d, at = quant.relation_dev(got, base[q.name], [D] * len(q.axes), q.axes, nat=sc0.nat(q, base[q.name]))
                if q.name == "overlap_integral" and sign.min() < 0:
                    if not np.allclose(np.diag(got), np.diag(base[q.name]), atol=1e-10):
                        return v.fail("a negative column factor changed a diagonal overlap element")
            v.info["rel_dev"] = max(v.info.get("rel_dev", 0.0), d)
            if not d <= q.tol:
                return v.fail(f"{q.name}: shell {case['shell']} ({label}) changes the result by {d:.3e} at {at}")
    return v


def shards(tier):
    n = 4 if tier == "quick" else 15
    out = []
    for kind in KINDS:
        for i in range(4 if tier == "quick" else 12):
            out.append({"id": f"{kind}-{i}", "kind": kind, "eri": False, "n": n, "big": tier != "quick", "cost": 20 * n})
        for i in range(2 if tier == "quick" else 6):
            out.append({"id": f"{kind}-e{i}", "kind": kind, "eri": True, "n": n, "big": tier != "quick", "cost": 30 * n})
    return out


# ---- block linearity ---------------------------------------------------------------------------
KERNELS = [
    ("Overlap", 2, lambda sh_, e: Overlap.construct_array_contraction(*sh_)),
    ("KineticEnergyIntegral", 2, lambda sh_, e: KineticEnergyIntegral.construct_array_contraction(*sh_)),
    ("MomentumIntegral", 2, lambda sh_, e: MomentumIntegral.construct_array_contraction(*sh_)),
    ("AngularMomentumIntegral", 2, lambda sh_, e: AngularMomentumIntegral.construct_array_contraction(*sh_)),
    ("Moment", 2, lambda sh_, e: Moment.construct_array_contraction(*sh_, np.array(e["origin"]), np.array(e["orders"], dtype=int))),
    ("PointChargeIntegral", 2, lambda sh_, e: PointChargeIntegral.construct_array_contraction(
        *sh_, np.array(e["nuc_coords"]).reshape(-1, 3), np.array(e["nuc_charges"]))),
    ("Eval", 1, lambda sh_, e: Eval.construct_array_contraction(*sh_, np.array(e["points"]))),
    ("EvalDeriv", 1, lambda sh_, e: EvalDeriv.construct_array_contraction(*sh_, np.array(e["points"]), np.array(e["deriv_order"], dtype=int))),
    ("ElectronRepulsionIntegral", 4, lambda sh_, e: ElectronRepulsionIntegral.construct_array_contraction(*sh_)),
]


@st.composite
def lin_case(draw):
    shells = draw(gen.basis(nmin=4, nmax=4, lmax=2, kmax=3, mmax=2, exp_lo=0.1, exp_hi=10.0, halves=(0.5, 2.0)))
    env = draw(env_st([s["coord"] for s in shells], nmax_pts=3))
    pos = draw(st.integers(0, 3))
    c2 = [[[draw(gen.coefficient()) for _ in s["coeffs"][0]] for _ in s["exps"]] for s in shells]
    lam = draw(st.floats(-3, 3, allow_nan=False))
    return {"shells": shells, "env": env, "pos": pos, "c2": c2, "lam": lam}


def judge_lin(case):
    shells = case["shells"]
    env = case["env"]
    pos, lam = case["pos"], case["lam"]
    v = Verdict(nontrivial=True, classes=["pos-%d" % pos])
    for name, arity, call in KERNELS:
        p = pos % arity
        c1 = np.array(shells[p]["coeffs"])
        c2 = np.array(case["c2"][p])

        def blocks(co):
            sl = [mk_shell(s) for s in shells[:arity]]
            sl[p] = mk_shell(dict(shells[p], coeffs=co.tolist()))
            return lib(call, sl, env)

        b1, b2, b12 = blocks(c1), blocks(c2), blocks(c1 + lam * c2)
        scale = np.abs(b1) + abs(lam) * np.abs(b2) + 1e-3 * max(np.abs(b1).max(), np.abs(b2).max()) + 1e-300
        d = float((np.abs(b12 - (b1 + lam * b2)) / scale).max())
        tol = 2e-6 if arity == 4 else 1e-9
        if not d <= tol:
            return v.fail(f"{name}.construct_array_contraction is not linear in the coefficients of argument {p}: {d:.3e}")
    return v


def shards_lin(tier):
    k, n = (8, 3) if tier == "quick" else (24, 30)
    return [{"id": i, "n": n, "cost": 20 * n} for i in range(k)]


SUBCHECKS = [
    SubCheck("rewrite", judge, shards, strategy=lambda s: case_st(s["eri"], s["kind"], s.get("big", False))),
    SubCheck("linearity", judge_lin, shards_lin, strategy=lambda s: lin_case()),
]
EXHAUSTIVE = {"permute": "every permutation of the primitives of the rewritten shell (<= 24) per case"}
