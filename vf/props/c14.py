"""C14 - electrostatic potential = nuclear minus electronic Coulomb potential; threshold and transform rules."""
import numpy as np
from hypothesis import strategies as st

from vf import gen
from vf.core import Verdict, lib, maxdev, mk_basis, nfunc
from vf.ref import r2, r3
from vf.run import SubCheck

from gbasis.evals.electrostatic_potential import electrostatic_potential

RULE = ("Hypothesis draws bases of 1-3 generalized mixed-type shells (l 0..3), a symmetric density matrix, 1-6 points "
        "including points exactly on nuclei, 1-5 nuclei (on shell centres or elsewhere, pairwise distinct) with charges of "
        "either sign and |Z| 0.1..100, a square or rectangular transformation (gamma sized K_orb), and a threshold from "
        "{0, (1-1e-6)d, (1+1e-6)d for a drawn point-nucleus distance d, between the two smallest distances, beyond the "
        "largest}.  Oracle: sum over nuclei with d >= threshold of Z/d minus sum_ab gamma_ab (ab|1/|r-R|) with R2 integrals; "
        "inclusion is decided with the oracle's own distances and points whose distance lies within 1e-9 of the threshold "
        "are not judged; a point on a nucleus with threshold 0 must give +-inf.  Tolerance 1e-8*(sum|Z/d| + "
        "sum|gamma_ab| sqrt(V_aa V_bb)).  Non-trivial: a threshold that separates two nuclei for some point, or |Z| != 1 "
        "with a nucleus dropped, or a rectangular T.")
ASSUMPTIONS = ["reference integrals from vf/ref R2; density matrix symmetric as the API requires"]
TOL = 1e-8
EXPECTED_CLASSES = ["esp/rectangular-T", "esp/threshold-separates", "esp/point-on-nucleus", "esp/negative-charge-dropped"]


@st.composite
def case_st(draw):
    shells = draw(gen.basis(nmin=1, nmax=3, lmax=3, kmax=3, mmax=2, halves=(0.5, 2.0, 5.0)))
    cents = []
    for s in shells:
        if s["coord"] not in cents:
            cents.append(s["coord"])
    nn = draw(st.integers(1, 5))
    nuc = []
    for i in range(nn):
        if i < len(cents) and draw(st.integers(0, 3)) > 0:
            c = list(cents[i])
        else:
            c = [draw(st.floats(-4, 4, allow_nan=False)) for _ in range(3)]
        if all(sum((a - b) ** 2 for a, b in zip(c, o)) > 1e-6 for o in nuc):  # pairwise distinct (>= 1e-3 bohr apart)
            nuc.append(c)
    Z = []
    for _ in nuc:
        mag = draw(st.sampled_from([1.0, 2.0, 6.0, 8.0]) | gen.log_uniform(0.1, 100.0))
        Z.append(mag if draw(st.integers(0, 3)) else -mag)
    pts = draw(gen.points_near(nuc + cents, nmin=1, nmax=6, far=30.0))
    if draw(st.booleans()):
        pts[0] = list(nuc[0])  # a point exactly on a nucleus
    n = sum(nfunc(s) for s in shells)
    T = draw(st.none() | gen.transform_matrix(n))
    k = n if T is None else len(T)
    g, _ = draw(gen.sym_matrix(k))
    # threshold
    P, N = np.array(pts), np.array(nuc)
    d = np.sqrt(((P[:, None, :] - N[None, :, :]) ** 2).sum(-1))
    flat = sorted(set(float(x) for x in d.ravel()))
    mode = draw(st.integers(0, 5))
    pick = flat[draw(st.integers(0, len(flat) - 1))]
    if mode == 0 or (pick == 0 and mode in (1, 2)):
        thr, tcls = 0.0, "zero"
    elif mode == 1:
        thr, tcls = pick * (1 - 1e-6), "just-below-a-distance"
    elif mode == 2:
        thr, tcls = pick * (1 + 1e-6), "just-above-a-distance"
    elif mode == 3 and len(flat) >= 2:
        thr, tcls = 0.5 * (flat[0] + flat[1]), "between-two-smallest"
    elif mode == 4:
        thr, tcls = flat[-1] * 1.5 + 1.0, "beyond-largest"
    else:
        thr, tcls = draw(st.floats(0.01, 5.0, allow_nan=False)), "random"
    return {"shells": shells, "gamma": g, "points": pts, "nuclei": nuc, "charges": Z, "transform": T,
            "threshold": float(thr), "tcls": tcls}


def judge(case):
    shells = case["shells"]
    P = np.array(case["points"], dtype=float).reshape(-1, 3)
    N = np.array(case["nuclei"], dtype=float).reshape(-1, 3)
    Z = np.array(case["charges"], dtype=float)
    g = np.array(case["gamma"], dtype=float)
    T = None if case.get("transform") is None else np.array(case["transform"], dtype=float)
    thr = float(case["threshold"])
    v = Verdict(classes=["thr-" + case.get("tcls", "?")])
    R = r3.refs(shells)
    bas = mk_basis(shells)
    ncont = sum(s.nfun for s in R)
    # electronic term: integrals of phi_a phi_b / |r - P_n|
    V = r3.two_index(R, R, lambda a, b: r2.point_charge_block(a, b, P, -np.ones(len(P))))
    dg = np.sqrt(np.abs(np.einsum("aan->an", V)))
    sc = dg[:, None, :] * dg[None, :, :]
    if T is not None:
        V = np.einsum("ia,jb,abn->ijn", T, T, V)
        sc = np.einsum("ia,jb,abn->ijn", np.abs(T), np.abs(T), sc)
        if T.shape[0] != ncont:
            v.classes.append("rectangular-T")
            v.nontrivial = True
    elec = np.einsum("ij,ijn->n", g, V)
    esc = np.einsum("ij,ijn->n", np.abs(g), sc)
    d = np.sqrt(((P[:, None, :] - N[None, :, :]) ** 2).sum(-1))
    keep = d >= thr
    ambiguous = (np.abs(d - thr) <= 1e-9 * np.maximum(d, thr)) & (thr > 0)
    judged = ~ambiguous.any(axis=1)
    with np.errstate(divide="ignore", invalid="ignore"):
        terms = np.where(keep, Z[None, :] / d, 0.0)
    nucl = terms.sum(axis=1)
    nsc = np.where(np.isfinite(terms), np.abs(terms), 0.0).sum(axis=1)
    want = nucl - elec
    if (d == 0).any():
        v.classes.append("point-on-nucleus")
    dropped = ~keep
    if dropped.any() and keep.any() and (dropped.any(axis=1) & keep.any(axis=1)).any():
        v.classes.append("threshold-separates")
        v.nontrivial = True
    if (dropped & (Z[None, :] < 0)).any():
        v.classes.append("negative-charge-dropped")
        v.nontrivial = True
    if (dropped & (np.abs(Z[None, :]) != 1)).any():
        v.nontrivial = True
    err0 = np.geterr()
    got = lib(electrostatic_potential, bas, g, P, N, Z, transform=T, threshold_dist=thr)
    if np.geterr() != err0:
        return v.fail(f"numpy error state changed by the call: {err0} -> {np.geterr()}")
    # the value depends on the arguments only: the same call again, and a call with another density matrix in between
    lib(electrostatic_potential, bas, 0.5 * g, P, N, Z, transform=T, threshold_dist=thr)
    again = lib(electrostatic_potential, bas, g, P, N, Z, transform=T, threshold_dist=thr)
    if not np.array_equal(again, got, equal_nan=True):
        with np.errstate(all="ignore"):
            change = np.nanmax(np.abs(again - got))
        return v.fail(f"electrostatic_potential returns different values when the same call is repeated (max change {change:.3e})")
    if got.shape != want.shape:
        return v.fail(f"electrostatic_potential shape {got.shape}, expected {want.shape}")
    tol = TOL * (nsc + esc) + 1e-300
    fin = np.isfinite(want)
    # (a point that coincides with two nuclei of opposite sign gives inf - inf on both sides: nan counts as agreement)
    bad_inf = judged & ~fin & ~((got == want) | (np.isnan(got) & np.isnan(want)))
    if bad_inf.any():
        i = int(np.argmax(bad_inf))
        return v.fail(f"point {P[i].tolist()} on a nucleus (threshold {thr}): expected {want[i]}, got {got[i]}")
    m = judged & fin
    if m.any():
        dev = np.where(m, np.abs(got - np.where(fin, want, 0.0)) / tol, 0.0)
        dev = np.where(np.isnan(dev), np.inf, dev)
        i = int(np.argmax(dev))
        v.info["dev_over_tol"] = float(dev[i])
        if not dev[i] <= 1.0:
            who = [(float(Z[k]), float(d[i, k]), bool(keep[i, k])) for k in range(len(Z))]
            return v.fail(f"electrostatic_potential at point {i} = {got[i]!r}, expected {want[i]!r} (threshold {thr!r}; "
                          f"nuclei (Z, distance, included) = {who}); deviation {dev[i]:.3e} x tolerance")
    return v


def shards(tier):
    k, n = (16, 30) if tier == "quick" else (64, 400)
    return [{"id": i, "n": n} for i in range(k)]


SUBCHECKS = [SubCheck("esp", judge, shards, strategy=lambda sh: case_st())]
