"""C15 - stress tensor, Ehrenfest force and Ehrenfest Hessian obey their definitions."""
import numpy as np
from hypothesis import strategies as st

from vf import gen
from vf.core import Verdict, lib, maxdev, mk_basis, nfunc
from vf.ref import dens, r3
from vf.run import SubCheck

from gbasis.evals import stress_tensor as gs

RULE = ("Shards enumerate the nine (alpha,beta) special-case cells {0,1/2,1}x{0,1/2,1} plus random-real cells; Hypothesis "
        "draws bases of 1-3 generalized mixed-type shells (l 0..3), a symmetric density matrix, 1-5 points, an optional "
        "(rectangular) transformation and the `symmetric` flag.  Oracle: a small operator algebra over D(p,q) = "
        "d_r^p d_r'^q gamma|_{r=r'} evaluated with R5: sigma is ENTERED from its documented (symmetrised) definition, the "
        "force is DERIVED as -sum_i (d_i+d'_i) sigma_ij and the Hessian as (d_k+d'_k) F_j - no implementation formula "
        "is transcribed.  Tolerance 1e-9*sum|terms|.  Each of the three functions is called once more on the SAME objects after the density "
        "matrix was halved and the points reversed in place (linearity in gamma; rows reverse).  Independently of R5: Richardson central differences of the "
        "library's own sigma and F reproduce -F and H (1e-4 of sum|terms|; step 0.02/sqrt(alpha_max)).  Non-trivial: a shell with l >= 1 present (the (alpha,beta) "
        "cell is reported in the class histogram).")
ASSUMPTIONS = ["Ehrenfest Hessian = Jacobian dF_j/dr_k, the documented expanded formula (its headline sign contradicts its own expansion)"]
TOL = 1e-9
SPECIAL = [0, 0.5, 1]


@st.composite
def case_st(draw, alpha, beta):
    shells = draw(gen.basis(nmin=1, nmax=3, lmax=3, kmax=3, mmax=2, exp_hi=50.0))
    cents = [s["coord"] for s in shells]
    pts = draw(gen.points_near(cents, nmin=1, nmax=5, far=20.0))
    n = sum(nfunc(s) for s in shells)
    T = draw(st.none() | gen.transform_matrix(n))
    k = n if T is None else len(T)
    g, psd = draw(gen.sym_matrix(k))
    rnd = st.floats(-2, 2, allow_nan=False, width=32)
    if alpha is None:
        alpha = draw(rnd)
    if beta is None:
        beta = draw(rnd)
    return {"shells": shells, "points": pts, "gamma": g, "alpha": alpha, "beta": beta, "transform": T,
            "symmetric": draw(st.booleans())}


def _num(x):
    return int(x) if float(x).is_integer() else float(x)


def _cmp(v, what, got, val, sc, tol=TOL):
    if got.shape != val.shape:
        return v.fail(f"{what}: shape {got.shape}, expected {val.shape}")
    d, at = maxdev(got, val, sc + 1e-300)
    v.info["rel_dev"] = max(v.info.get("rel_dev", 0.0), d)
    if not d <= tol:
        return v.fail(f"{what} deviates from its definition by {d:.3e} of sum|terms| at {at}: got {got[at]!r}, "
                      f"expected {val[at]!r}")
    return None


def judge(case):
    shells = case["shells"]
    pts = np.array(case["points"], dtype=float).reshape(-1, 3)
    g = np.array(case["gamma"], dtype=float)
    T = None if case.get("transform") is None else np.array(case["transform"], dtype=float)
    a, b = _num(case["alpha"]), _num(case["beta"])
    v = Verdict(classes=["alpha-%s" % (a if a in SPECIAL else "real"), "beta-%s" % (b if b in SPECIAL else "real")])
    R = r3.refs(shells)
    bas = mk_basis(shells)
    dr = dens.DensRef(R, pts, g, T)
    kw = {"alpha": a, "beta": b, "transform": T}
    v.nontrivial = max(s["l"] for s in shells) >= 1

    def tensor(fn, n1, n2=None):
        vals = np.zeros((len(pts),) + ((n1,) if n2 is None else (n1, n2)))
        scs = np.zeros_like(vals)
        for i in range(n1):
            for j in range(1 if n2 is None else n2):
                val, sc = dr.evaluate(fn(i) if n2 is None else fn(i, j))
                if n2 is None:
                    vals[:, i], scs[:, i] = val, sc
                else:
                    vals[:, i, j], scs[:, i, j] = val, sc
        return vals, scs

    sv, ss = tensor(lambda i, j: dens.stress(i, j, a, b), 3, 3)
    got = lib(gs.evaluate_stress_tensor, g, bas, pts, **kw)
    if _cmp(v, f"evaluate_stress_tensor(alpha={a}, beta={b})", got, sv, ss):
        return v
    d, at = maxdev(got, np.swapaxes(got, 1, 2), ss + 1e-300)
    if not d <= 2 * TOL:
        return v.fail(f"stress tensor not symmetric: {d:.3e} at {at}")
    fv, fs = tensor(lambda j: dens.force(j, a, b), 3)
    gf = lib(gs.evaluate_ehrenfest_force, g, bas, pts, **kw)
    if _cmp(v, f"evaluate_ehrenfest_force(alpha={a}, beta={b}) vs -div sigma", gf, fv, fs):
        return v
    hv, hs = tensor(lambda j, k: dens.ehrenfest_hessian(j, k, a, b), 3, 3)
    gh = lib(gs.evaluate_ehrenfest_hessian, g, bas, pts, symmetric=False, **kw)
    if _cmp(v, f"evaluate_ehrenfest_hessian(alpha={a}, beta={b}) vs Jacobian of the force", gh, hv, hs):
        return v
    ghs = lib(gs.evaluate_ehrenfest_hessian, g, bas, pts, symmetric=True, **kw)
    if _cmp(v, "evaluate_ehrenfest_hessian(symmetric=True) vs average with transpose", ghs,
            0.5 * (gh + np.swapaxes(gh, 1, 2)), hs + np.swapaxes(hs, 1, 2), 2 * TOL):
        return v
    # the same objects once more after their CONTENTS were changed in place (a value remembered per object would be stale):
    # the density matrix halved - every field is linear in it - and the points listed in reverse - the rows reverse
    g *= 0.5
    pts[:] = pts[::-1].copy()
    v.classes.append("recall-after-inplace-change")
    for what, fn, old_, sc_, kw2 in (("evaluate_stress_tensor", gs.evaluate_stress_tensor, got, ss, {}),
                                     ("evaluate_ehrenfest_force", gs.evaluate_ehrenfest_force, gf, fs, {}),
                                     ("evaluate_ehrenfest_hessian", gs.evaluate_ehrenfest_hessian, gh, hs, {"symmetric": False})):
        new_ = lib(fn, g, bas, pts, **kw, **kw2)
        if _cmp(v, f"{what} called again on the same objects after the density matrix was halved and the points reversed in place "
                   f"vs half the reversed first result", new_, 0.5 * old_[::-1], sc_[::-1]):
            return v
    g *= 2.0
    pts[:] = pts[::-1].copy()
    # finite differences of the library's own fields (independent of R5)
    if case.get("symmetric"):
        v.classes.append("finite-difference")

        def fd(fn, h):
            out = []
            for k in range(3):
                e = np.zeros(3)
                e[k] = h
                out.append((fn(pts + e) - fn(pts - e)) / (2 * h))
            return np.stack(out, axis=-1)  # [..., k] = d/dr_k

        amax = max(max(s_["exps"]) for s_ in shells)

        def rich(fn):
            """Richardson-extrapolated central difference and its own error estimate (|D(h/2) - D(h)|)."""
            h = 2e-2 / np.sqrt(max(1.0, amax))
            d1, d2 = fd(fn, h), fd(fn, h / 2)
            return (4 * d2 - d1) / 3, np.abs(d2 - d1)

        def fdcmp(what, num, est, ana, sc):
            # a difference quotient samples the neighbourhood of the point: judge against the largest component at the
            # point plus the quotient's own error estimate (an analytic value that vanishes by symmetry at the point
            # would otherwise be compared with the truncation error of its neighbourhood)
            n = num.shape[0]
            ps = np.maximum(np.abs(sc), np.abs(ana)).reshape(n, -1).max(axis=1) + est.reshape(n, -1).max(axis=1) * 1e3 + 1e-12
            d, at = maxdev(num, ana, ps.reshape((n,) + (1,) * (num.ndim - 1)) * np.ones_like(num))
            v.info["fd_dev"] = max(v.info.get("fd_dev", 0.0), d)
            if not d <= 1e-4:
                return v.fail(f"finite-difference {what}: {d:.3e} of the local magnitude at {at}")
            return None

        dsig, esig = rich(lambda p: lib(gs.evaluate_stress_tensor, g, bas, p, **kw))  # [n, i, j, k]
        div = -np.einsum("niji->nj", dsig)
        ediv = np.einsum("niji->nj", esig)
        if fdcmp("divergence of the library's stress tensor differs from -(its force)", div, ediv, gf, fs):
            return v
        jac, ejac = rich(lambda p: lib(gs.evaluate_ehrenfest_force, g, bas, p, **kw))  # [n, j, k]
        if fdcmp("Jacobian of the library's force differs from its Hessian", jac, ejac, gh, hs):
            return v
    return v


def shards(tier):
    n = 3 if tier == "quick" else 30
    cells = [(x, y) for x in SPECIAL for y in SPECIAL] + [(None, None)] * 3 + [(None, 0), (0.5, None), (1, None), (0, None)]
    return [{"id": f"{i}", "alpha": x, "beta": y, "n": n} for i, (x, y) in enumerate(cells)]


SUBCHECKS = [SubCheck("stress", judge, shards, strategy=lambda sh: case_st(sh["alpha"], sh["beta"]))]
EXHAUSTIVE = {"special_cases": "all nine (alpha,beta) in {0,1/2,1}^2 (every skipped-branch combination)"}
