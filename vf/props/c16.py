"""C16 - analytic integrals and pointwise evaluations describe the same functions (numerical quadrature)."""
import math

import numpy as np
from hypothesis import strategies as st

from vf import gen
from vf.core import Verdict, lib, mk_basis, nfunc, case_hash
from vf.run import SubCheck

from gbasis.evals.density import evaluate_density, evaluate_posdef_kinetic_energy_density
from gbasis.evals.eval import evaluate_basis
from gbasis.evals.eval_deriv import evaluate_deriv_basis
from gbasis.integrals.kinetic_energy import kinetic_energy_integral
from gbasis.integrals.moment import moment_integral
from gbasis.integrals.overlap import overlap_integral

RULE = ("Hypothesis draws bases of 1-3 generalized shells (l 0..3 quick / 0..4 thorough, K 1-2, M 1-2, every type pattern, "
        "exponents 0.3-3, centres within 1 bohr of the origin), a symmetric PSD density matrix, a moment origin and moment orders "
        "of total <= 2.  Oracle: uniform-grid trapezoid rule on [-L,L]^3 with spacing h derived per case from the largest/smallest "
        "pair exponent (h <= pi/sqrt(40 p_max), L >= 1 + sqrt(40/p_min) + margin) so that truncation and aliasing are below "
        "1e-13: sum phi_a phi_b h^3 vs overlap_integral; sum phi_a m phi_b h^3 vs moment_integral; 1/2 sum grad phi_a . grad "
        "phi_b h^3 vs kinetic_energy_integral; sum rho h^3 vs tr(gamma S); sum t+ h^3 vs tr(gamma T); tolerance 1e-9*max(1, "
        "scale).  Gradients and t+ come from deriv_type='direct' in every other case (grid planes through centre coordinates occur: a third of the centre coordinates are exactly 0).  Non-trivial: a spherical shell with l >= 2, or M >= 2.")
ASSUMPTIONS = ["trapezoid rule on a uniform grid converges geometrically for polynomial x Gaussian integrands; window 0.3-3 only"]
TOL = 1e-9


@st.composite
def case_st(draw, lmax):
    n = draw(st.integers(1, 3))
    shells = []
    for _ in range(n):
        c = [draw(st.floats(-1, 1, allow_nan=False, width=32)) * draw(st.sampled_from([0.0, 0.5, 1.0])) for _ in range(3)]
        shells.append(draw(gen.shell(st.integers(0, lmax), c, kmax=2, mmax=2, exp_lo=0.3, exp_hi=3.0)))
    nf = sum(nfunc(s) for s in shells)
    G, _ = draw(gen.sym_matrix(nf, psd=True))
    orders = draw(st.lists(st.sampled_from([(1, 0, 0), (0, 1, 0), (0, 0, 1), (2, 0, 0), (1, 1, 0), (0, 1, 1), (0, 0, 2), (1, 0, 1),
                                            (0, 2, 0)]), min_size=1, max_size=2, unique=True))
    origin = [draw(st.floats(-1, 1, allow_nan=False, width=32)) for _ in range(3)]
    return {"shells": shells, "G": G, "orders": [list(o) for o in orders], "origin": origin}


def judge(case):
    shells = case["shells"]
    v = Verdict(classes=["types-" + "".join(s["type"][0] for s in shells)])
    v.nontrivial = any((s["type"] == "spherical" and s["l"] >= 2) or len(s["coeffs"][0]) >= 2 for s in shells)
    bas = mk_basis(shells)
    G = np.array(case["G"], dtype=float)
    origin = np.array(case["origin"], dtype=float)
    orders = np.array(case["orders"], dtype=int).reshape(-1, 3)
    emin = min(min(s["exps"]) for s in shells)
    emax = max(max(s["exps"]) for s in shells)
    lmax = max(s["l"] for s in shells)
    h = math.pi / math.sqrt(40 * 2 * emax)
    L = 1.0 + math.sqrt((40 + 4 * (lmax + 2)) / (2 * emin)) + 0.5
    # one case in four hands the grid over as a float32 array: the spacing is then a power of two, so that every grid point is a
    # float32 number and the float32 array denotes exactly the same grid
    f32 = int(case_hash(case), 16) % 4 == 0
    if f32:
        h = 2.0 ** math.floor(math.log2(h))
        v.classes.append("grid-float32")
    # every other case takes the gradients and t+ from the 'direct' back-end (first orders only, which it accepts); the grid
    # contains the planes x, y, z = 0, on which every centre with a zero coordinate lies
    dtype_ = "direct" if (int(case_hash(case), 16) // 4) % 2 == 0 else "general"
    v.classes.append("deriv-" + dtype_)
    if dtype_ == "direct" and any(s["l"] >= 1 and any(c == 0 for c in s["coord"]) for s in shells):
        v.classes.append("direct-centre-on-grid-plane")
    npts = int(math.ceil(L / h))
    ax = np.arange(-npts, npts + 1) * h
    w = h ** 3
    nf = sum(nfunc(s) for s in shells)
    S = np.zeros((nf, nf))
    T = np.zeros((nf, nf))
    M = np.zeros((nf, nf, len(orders)))
    rho = 0.0
    ked = 0.0
    X, Y = np.meshgrid(ax, ax, indexing="ij")
    for zc in np.array_split(ax, max(1, len(ax) // 6)):
        pts = np.stack([np.repeat(X.ravel(), len(zc)), np.repeat(Y.ravel(), len(zc)), np.tile(zc, X.size)], axis=1)
        if f32:
            p32 = pts.astype(np.float32)
            if not np.array_equal(p32.astype(float), pts):
                raise RuntimeError("float32 grid does not denote the float64 grid (harness)")
            pts = p32
        phi = lib(evaluate_basis, bas, pts)
        S += phi @ phi.T * w
        for k, o in enumerate(orders):
            m = np.prod((pts - origin[None, :]) ** o[None, :], axis=1)
            M[:, :, k] += (phi * m[None, :]) @ phi.T * w
        for e in np.eye(3, dtype=int):
            d = lib(evaluate_deriv_basis, bas, pts, e, deriv_type=dtype_)
            T += 0.5 * d @ d.T * w
        rho += lib(evaluate_density, G, bas, pts).sum() * w
        ked += lib(evaluate_posdef_kinetic_energy_density, G, bas, pts, deriv_type=dtype_).sum() * w
    v.info["grid_points"] = float(len(ax) ** 3)
    Sa = lib(overlap_integral, bas)
    Ta = lib(kinetic_energy_integral, bas)
    Ma = lib(moment_integral, bas, origin, orders)

    def cmp(name, num, ana, scale):
        d = float((np.abs(num - ana) / scale).max())
        v.info[name] = d
        if not d <= TOL:
            at = np.unravel_index(int(np.argmax(np.abs(num - ana) / scale)), np.shape(num)) if np.ndim(num) else ()
            return v.fail(f"quadrature of the pointwise evaluations gives {name} = {np.asarray(num)[at]!r} but the analytic integral is "
                          f"{np.asarray(ana)[at]!r} at {tuple(int(x) for x in at)} (deviation {d:.3e} of scale; grid {len(ax)}^3, h={h:.3f})")
        return None

    if cmp("overlap", S, Sa, 1.0):
        return v
    td = np.sqrt(np.abs(np.diag(Ta)))
    if cmp("kinetic", T, Ta, np.maximum(1.0, td[:, None] * td[None, :])):
        return v
    ext = (2.0 + np.abs(origin).max()) ** orders.sum(axis=1)
    if cmp("moment", M, Ma, ext[None, None, :]):
        return v
    if cmp("integrated density vs tr(gamma S)", rho, float(np.sum(G * Sa)), max(1.0, float(np.sum(np.abs(G))))):
        return v
    if cmp("integrated t+ vs tr(gamma T)", ked, float(np.sum(G * Ta)), max(1.0, float(np.sum(np.abs(G) * np.abs(Ta))))):
        return v
    return v


def shards(tier):
    k, n, lmax = (16, 2, 3) if tier == "quick" else (48, 4, 4)
    return [{"id": i, "n": n, "lmax": lmax, "cost": 100} for i in range(k)]


SUBCHECKS = [SubCheck("quadrature", judge, shards, strategy=lambda s: case_st(s["lmax"]))]
