"""C17 - Gram-matrix positivity and Schwarz bounds of the integral arrays."""
import numpy as np
from hypothesis import strategies as st

from vf import gen
from vf.core import Verdict, lib, mk_basis, nfunc
from vf.run import SubCheck

from gbasis.integrals.electron_repulsion import electron_repulsion_integral
from gbasis.integrals.kinetic_energy import kinetic_energy_integral
from gbasis.integrals.overlap import overlap_integral
from gbasis.integrals.point_charge import point_charge_integral

RULE = ("Hypothesis draws bases of 1-5 generalized mixed-type shells (l 0..3, exponents 0.05-50; for the repulsion array 1-3 "
        "shells, l <= 2, exponents 0.1-10; plus a many-primitive class: a p shell of 6-10 (12) or a d shell of 3-4 (5) primitives, every count enumerated, next to a light "
        "shell), centres from coincident to 15 bohr apart, optionally made NEARLY LINEARLY DEPENDENT "
        "by duplicating a shell with exponents scaled by 1+delta (delta 1e-2..1e-8) or displaced by 1e-1..1e-6 bohr, and 1-3 "
        "positive point charges anywhere.  Oracle (validity predicates on the returned arrays): S symmetric, lambda_min(S) >= "
        "-1e-9 lambda_max, |S_ab| <= 1+1e-9; lambda_min(T) >= -1e-9 lambda_max; lambda_max(V_q) <= 1e-9 |lambda|_max per positive "
        "charge; the repulsion array as a matrix over index pairs symmetric with lambda_min >= -1e-6 lambda_max, (ab|ab) >= "
        "-1e-6 max and |(ab|cd)| - sqrt((ab|ab)(cd|cd)) <= 1e-6 max.  Non-trivial: >= 2 shells on different centres or a "
        "near-dependent pair (cond(S) > 1e6); the class histogram records log10 cond(S).")
ASSUMPTIONS = ["numpy.linalg.eigvalsh accurate to ~1e-14 of the largest eigenvalue"]


@st.composite
def heavy_st(draw, l, k):
    """A many-primitive p or d shell (the (aa|aa) block then needs a recursion work space of 2^21..2^26 elements) next to a light
    shell on another centre: code that evaluates a quartet in batches of primitives must still return a Gram matrix."""
    cs = draw(gen.centres(2, p_same=0.0, halves=(0.5, 2.0)))
    heavy = draw(gen.shell(l, cs[0], kmin=k, kmax=k, mmax=1, exp_lo=0.1, exp_hi=10.0))
    light = draw(gen.shell(st.integers(0, 2), cs[1], kmax=2, mmax=1, exp_lo=0.1, exp_hi=10.0))
    shells = [heavy, light] if draw(st.booleans()) else [light, heavy]
    return {"shells": shells, "coords": [[0.0, 0.0, 0.0]], "charges": [1.0], "eri": True, "mode": 3, "heavy": k}


@st.composite
def case_st(draw, eri):
    if isinstance(eri, (list, tuple)):  # enumerated (l, K) of the heavy shell
        return draw(heavy_st(int(eri[0]), int(eri[1])))
    if eri:
        shells = draw(gen.basis(nmin=1, nmax=3, lmax=2, kmax=2, mmax=2, exp_lo=0.1, exp_hi=10.0, halves=(0.5, 2.0, 5.0)))
    else:
        shells = draw(gen.basis(nmin=1, nmax=4, lmax=3, kmax=3, mmax=2, exp_lo=0.05, exp_hi=50.0))
    mode = draw(st.integers(0, 3))
    if mode == 1:  # duplicate with scaled exponents
        src = shells[draw(st.integers(0, len(shells) - 1))]
        delta = draw(st.sampled_from([1e-2, 1e-4, 1e-6, 1e-8]))
        shells.append(dict(src, exps=[e * (1 + delta) for e in src["exps"]]))
    elif mode == 2:  # duplicate displaced
        src = shells[draw(st.integers(0, len(shells) - 1))]
        eps = draw(st.sampled_from([1e-1, 1e-2, 1e-4, 1e-6]))
        ax = draw(st.integers(0, 2))
        c = list(src["coord"])
        c[ax] += eps
        shells.append(dict(src, coord=c))
    cents = [s["coord"] for s in shells]
    pts = draw(gen.points_near(cents, nmin=1, nmax=3, far=50.0))
    q = [draw(gen.log_uniform(0.1, 50.0)) for _ in pts]
    return {"shells": shells, "coords": pts, "charges": q, "eri": eri, "mode": mode}


def _sym(v, name, A, tol):
    d = np.abs(A - A.T).max()
    if not d <= tol * np.abs(A).max():
        return v.fail(f"{name} not symmetric: {d:.3e}")
    return None


def judge(case):
    shells = case["shells"]
    v = Verdict(classes=[["plain", "scaled-duplicate", "displaced-duplicate", "plain"][case["mode"]]])
    if case.get("heavy"):
        v.classes += ["heavy-shell", "heavy-K%d-l%d" % (case["heavy"], max(s["l"] for s in shells if len(s["exps"]) == case["heavy"]))]
    bas = mk_basis(shells)
    S = lib(overlap_integral, bas)
    if _sym(v, "overlap", S, 1e-9):
        return v
    w = np.linalg.eigvalsh((S + S.T) / 2)
    cond = w[-1] / max(abs(w[0]), 1e-300)
    v.classes.append("cond-1e%d" % int(np.clip(np.floor(np.log10(max(cond, 1.0))), 0, 16)))
    v.nontrivial = len({tuple(s["coord"]) for s in shells}) >= 2 or cond > 1e6
    v.info["S_min_over_max"] = float(-w[0] / w[-1])
    if not w[0] >= -1e-9 * w[-1]:
        return v.fail(f"overlap matrix has eigenvalue {w[0]:.3e} (largest {w[-1]:.3e})")
    if not np.abs(S).max() <= 1 + 1e-9:
        return v.fail(f"overlap element {np.abs(S).max()!r} exceeds 1")
    if case["eri"]:
        G = lib(electron_repulsion_integral, bas, notation="chemist")
        n = G.shape[0]
        M = G.reshape(n * n, n * n)
        big = np.abs(M).max()
        d = np.abs(M - M.T).max()
        if not d <= 1e-6 * big:
            return v.fail(f"repulsion array (ab|cd) != (cd|ab): {d:.3e} of max {big:.3e}")
        w = np.linalg.eigvalsh((M + M.T) / 2)
        v.info["ERI_min_over_max"] = float(-w[0] / w[-1])
        if not w[0] >= -1e-6 * w[-1]:
            return v.fail(f"repulsion array over index pairs has eigenvalue {w[0]:.3e} (largest {w[-1]:.3e})")
        dg = np.diag(M)
        if not dg.min() >= -1e-6 * big:
            return v.fail(f"(ab|ab) = {dg.min():.3e} < 0")
        q = np.sqrt(np.abs(dg))
        viol = (np.abs(M) - q[:, None] * q[None, :]).max()
        v.info["schwarz_violation"] = float(viol / big)
        if not viol <= 1e-6 * big:
            return v.fail(f"Schwarz inequality violated by {viol:.3e} (max element {big:.3e})")
        return v
    T = lib(kinetic_energy_integral, bas)
    if _sym(v, "kinetic", T, 1e-9):
        return v
    w = np.linalg.eigvalsh((T + T.T) / 2)
    v.info["T_min_over_max"] = float(-w[0] / w[-1])
    if not w[0] >= -1e-9 * w[-1]:
        return v.fail(f"kinetic matrix has eigenvalue {w[0]:.3e} (largest {w[-1]:.3e})")
    C = np.array(case["coords"], dtype=float).reshape(-1, 3)
    q = np.array(case["charges"], dtype=float)
    V = lib(point_charge_integral, bas, C, q)
    # positive charges stored in another numeric dtype (unsigned / 32-bit atomic numbers): rejected, or negative semi-definite too
    zi = np.maximum(1, np.minimum(100, np.rint(q))).astype(int)
    for dt in (np.uint8, np.uint32, np.int32):
        try:
            Vd = point_charge_integral(bas, C, zi.astype(dt))
        except Exception:  # noqa: BLE001 - rejecting the dtype is the documented alternative
            continue
        v.classes.append("charge-dtype-accepted")
        for k in range(len(zi)):
            w = np.linalg.eigvalsh((Vd[:, :, k] + Vd[:, :, k].T) / 2)
            if not w[-1] <= 1e-9 * np.abs(w).max():
                return v.fail(f"point-charge matrix of the positive charge {int(zi[k])} stored as {np.dtype(dt).name} has eigenvalue {w[-1]:.3e} > 0")
    for k in range(len(q)):
        Vk = V[:, :, k]
        if _sym(v, "point-charge matrix", Vk, 1e-8):
            return v
        w = np.linalg.eigvalsh((Vk + Vk.T) / 2)
        v.info["V_max_over_abs"] = max(v.info.get("V_max_over_abs", -1.0), float(w[-1] / np.abs(w).max()))
        if not w[-1] <= 1e-9 * np.abs(w).max():
            return v.fail(f"point-charge matrix of the positive charge {q[k]:.3g} at {C[k].tolist()} has eigenvalue {w[-1]:.3e} > 0 "
                          f"(most negative {w[0]:.3e})")
    return v


def shards(tier):
    k, n = (12, 30) if tier == "quick" else (48, 400)
    ke, ne = (8, 4) if tier == "quick" else (32, 30)
    lk = [(1, k_) for k_ in range(6, 11)] + [(2, 3), (2, 4)] + ([] if tier == "quick" else [(2, 5), (1, 11), (1, 12)])
    nh = 1 if tier == "quick" else 12
    return ([{"id": f"o{i}", "n": n, "eri": False} for i in range(k)]
            + [{"id": f"e{i}", "n": ne, "eri": True, "cost": 20 * ne} for i in range(ke)]
            + [{"id": f"h-l{l_}-K{k_}", "n": nh, "eri": [l_, k_], "cost": 400 * nh} for l_, k_ in lk])


SUBCHECKS = [SubCheck("gram", judge, shards, strategy=lambda s: case_st(s["eri"]))]

EXPECTED_CLASSES = ["gram/heavy-shell", "gram/scaled-duplicate", "gram/displaced-duplicate"]
