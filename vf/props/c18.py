"""C18 - basis-set import preserves every shell and leaves its arguments intact."""
import copy
import math
import os
import tempfile

import numpy as np
from hypothesis import strategies as st

from vf import gen
from vf.core import Verdict, lib
from vf.ref import r7
from vf.run import SubCheck

from gbasis.parsers import make_contractions, parse_gbs, parse_nwchem
from gbasis.wrappers import from_pyscf

RULE = ("Hypothesis draws a model basis set (1-4 elements with one- and two-letter symbols, 1-6 shells each, l from s to k, "
        "1-14 primitives, 1-6 coefficient columns in NWChem / one in Gaussian94, combined SP shells, repeated exponents that "
        "Gaussian94 must merge into a generalized shell) and a layout (number style E / D / 0.xD+yy / plain / no leading zero, "
        "signs, column widths, comment and blank lines (between blocks and, for NWChem, also between the primitives of a shell), 0 / 1 / 2+ lines before the first element incl. the single line "
        "BASIS \"ao basis\" PRINT, with or without trailing END / ****); the file is written and parsed.  Oracle: the model, "
        "with every number equal to float() of the emitted token (exact).  make_contractions / from_pyscf: molecules of 1-11 "
        "atoms with repeated elements, float or int coordinates, coord_types as one string (4 spellings), list or tuple, "
        "each call repeated with the SAME argument objects and deep snapshots compared.  Non-trivial: a file with an SP "
        "shell, >= 3 columns, l >= g, D-style numbers or < 2 header lines; a builder case with a list/tuple coord_types.")
ASSUMPTIONS = ["only layouts that the two formats define and Basis Set Exchange writes are generated (upper-case E/D, numbers "
               "with a '.' or an exponent); Gaussian94 merge rule = exactly equal exponents, never across an SP shell"]
ELEMENTS = ["H", "He", "Li", "C", "N", "O", "Ne", "Na", "Cl", "Kr", "U"]
LETTERS = "SPDFGHIK"
EXPECTED_CLASSES = ["nwchem/header-0", "nwchem/header-1", "gbs/header-0", "gbs/header-1", "nwchem/sp-shell", "gbs/sp-shell",
                    "gbs/merged-generalized", "nwchem/line-inside-shell"]


@st.composite
def token(draw, style, signed, lo=1e-3, hi=1e5):
    x = draw(gen.log_uniform(lo, hi))
    prec = draw(st.integers(4, 10))
    if style == "E":
        t = f"{x:.{prec}E}"
    elif style == "D":
        t = f"{x:.{prec}E}".replace("E", "D")
    elif style == "D0":
        e = math.floor(math.log10(x)) + 1
        t = f"{x / 10 ** e:.{prec}f}D{e:+03d}"
    elif style == "plain":
        t = f"{x:.{max(prec, 7)}f}"
    else:  # no leading zero
        t = f"{x:.{max(prec, 7)}f}"
        if t.startswith("0."):
            t = t[1:]
    if signed and draw(st.integers(0, 3)) == 0:
        t = "-" + t
    return t


@st.composite
def shell_st(draw, fmt, style, avoid):
    kind = draw(st.integers(0, 9))
    k = draw(st.sampled_from([1, 2, 3, 4, 5, 6, 8, 9, 10, 11, 12, 14]))  # two-digit primitive counts included
    exps = []
    while len(exps) < k:
        t = draw(token(style, False, 0.01, 1e5))
        if r7.tofloat(t) > 0 and all(abs(r7.tofloat(t) - r7.tofloat(u)) > 1e-3 * r7.tofloat(u) for u in exps + avoid):
            exps.append(t)
        else:
            exps.append(f"{1.0 + len(exps) + len(avoid) * 10:.6E}".replace("E", "D" if style.startswith("D") else "E"))
    if kind == 0:
        letters, m = "SP", 2
    else:
        letters = draw(st.sampled_from(LETTERS)) if kind < 4 else draw(st.sampled_from("SPDF"))
        m = 1 if fmt == "gbs" else draw(st.sampled_from([1, 1, 2, 3, 4, 6, 8, 10]))
    cols = [[draw(token(style, True, 1e-4, 10.0)) for _ in range(m)] for _ in range(k)]
    return {"letters": letters, "exps": exps, "cols": cols}


@st.composite
def model_st(draw, fmt):
    style = draw(st.sampled_from(["E", "D", "D0", "plain", "noleading"]))
    els = draw(st.lists(st.sampled_from(ELEMENTS), min_size=1, max_size=4, unique=True))
    model = []
    universal = draw(st.integers(0, 3)) == 0
    for el in els:
        shells = []
        if universal and model and len(model[-1][1][-1]["letters"]) == 1:
            # universal / even-tempered sets: an element starts with the very exponents (and angular momentum) on which the element
            # written just before it ended - state must not be carried from one element to the next
            last = model[-1][1][-1]
            shells.append({"letters": last["letters"], "exps": list(last["exps"]),
                           "cols": [[draw(token(style, True, 1e-4, 10.0)) for _ in last["cols"][0]] for _ in last["exps"]],
                           "shared_with_previous_element": True})
        for _ in range(draw(st.sampled_from([1, 2, 3, 4, 5, 6, 10, 12]))):
            prev = shells[-1] if shells else None
            if fmt == "gbs" and prev is not None and len(prev["letters"]) == 1 and draw(st.integers(0, 3)) == 0:
                # same exponents and l as the previous shell: Gaussian94 readers merge these into a generalized shell
                s = {"letters": prev["letters"], "exps": list(prev["exps"]),
                     "cols": [[draw(token(style, True, 1e-4, 10.0))] for _ in prev["exps"]]}
            else:
                s = draw(shell_st(fmt, style, [t for sh_ in shells for t in sh_["exps"]]))
            shells.append(s)
        model.append((el, shells))
    if fmt == "nwchem" and draw(st.integers(0, 3)) == 0:  # a repeated element block
        model.append((model[0][0], [draw(shell_st(fmt, style, [t for sh_ in model[0][1] for t in sh_["exps"]]))]))
    c = "#" if fmt == "nwchem" else "!"
    nh = draw(st.sampled_from([0, 0, 1, 1, 2, 5]))
    pool = ([c + " Basis Set Exchange", c + "----------", "", 'BASIS "ao basis" PRINT'] if fmt == "nwchem"
            else [c + " Basis Set Exchange", c + "----------", "", "****"])
    if nh == 1:
        header = ['BASIS "ao basis" PRINT'] if fmt == "nwchem" and draw(st.booleans()) else [draw(st.sampled_from(pool))]
    else:
        header = [draw(st.sampled_from(pool)) for _ in range(nh)]
        if fmt == "nwchem" and nh >= 2:
            header[-1] = 'BASIS "ao basis" PRINT'
    layout = {"header": header, "indent": draw(st.integers(1, 8)), "sep": draw(st.integers(1, 12)),
              "gap": draw(st.integers(1, 6)), "comments": draw(st.booleans()), "blanks": draw(st.booleans()),
              "end": draw(st.booleans())}
    if fmt == "nwchem" and draw(st.integers(0, 3)) == 0:
        # NWChem input is free-format: a comment or an empty line may also sit between the primitives of one shell
        layout["inner"] = draw(st.sampled_from(["", "# comment inside a shell", "#"]))
    return {"fmt": fmt, "model": model, "layout": layout, "style": style}


def _same_shells(v, what, got, want):
    if set(got.keys()) != set(want.keys()):
        return v.fail(f"{what}: elements {sorted(got.keys())}, file contains {sorted(want.keys())}")
    for el in want:
        g, w = got[el], want[el]
        if len(g) != len(w):
            return v.fail(f"{what}: element {el}: {len(g)} shells returned, {len(w)} in the file "
                          f"(l returned {[x[0] for x in g]}, l in file {[x[0] for x in w]})")
        for i, ((gl, ge, gc), (wl, we, wc)) in enumerate(zip(g, w)):
            if gl != wl:
                return v.fail(f"{what}: element {el} shell {i}: angular momentum {gl}, file has {wl}")
            if not np.array_equal(np.asarray(ge, dtype=float), np.array(we)):
                return v.fail(f"{what}: element {el} shell {i}: exponents {np.asarray(ge).tolist()} != {we}")
            gc = np.asarray(gc, dtype=float)
            wc = np.array(wc)
            if gc.ndim == 1 and wc.shape[1] == 1:
                gc = gc[:, None]
            if gc.shape != wc.shape or not np.array_equal(gc, wc):
                return v.fail(f"{what}: element {el} shell {i}: coefficients {gc.tolist()} != {wc.tolist()}")
    return None


def judge_file(case):
    fmt = case["fmt"]
    model = [(el, sh_) for el, sh_ in case["model"]]
    v = Verdict(classes=["header-%d" % min(len(case["layout"]["header"]), 2), "style-" + case.get("style", "?")])
    text = (r7.write_nwchem if fmt == "nwchem" else r7.write_gbs)(model, case["layout"])
    want = (r7.expected_nwchem if fmt == "nwchem" else r7.expected_gbs)(model)
    letters = [s["letters"] for _, shs in model for s in shs]
    if "SP" in letters:
        v.classes.append("sp-shell")
    if case["layout"].get("inner") is not None:
        v.classes.append("line-inside-shell")
    if any(len(s["cols"][0]) >= 3 for _, shs in model for s in shs):
        v.classes.append("columns>=3")
    if any(c in "GHIK" for c in "".join(letters)):
        v.classes.append("l>=g")
    if fmt == "gbs" and sum(len(x) for x in want.values()) < sum(len(r7._split(s)) for _, shs in model for s in shs):
        v.classes.append("merged-generalized")
    v.nontrivial = bool(set(v.classes) & {"sp-shell", "columns>=3", "l>=g", "header-0", "header-1", "style-D", "style-D0"})
    fd, path = tempfile.mkstemp(suffix="." + fmt, prefix="vf-c18-")
    try:
        with os.fdopen(fd, "w") as fh:
            fh.write(text)
        got = lib(parse_nwchem if fmt == "nwchem" else parse_gbs, path)
    finally:
        os.unlink(path)
    if _same_shells(v, f"parse_{fmt}", got, want):
        v.msg += "\n--- file ---\n" + text[:1500]
    return v


# ---- make_contractions / from_pyscf ------------------------------------------------------------
@st.composite
def builder_st(draw):
    els = draw(st.lists(st.sampled_from(ELEMENTS), min_size=1, max_size=3, unique=True))
    bd = {}
    for el in els:
        shells = []
        for _ in range(draw(st.integers(1, 4))):
            l = draw(st.integers(0, 4))
            k = draw(st.integers(1, 3))
            m = draw(st.integers(1, 3))
            exps = [draw(gen.log_uniform(0.05, 500.0)) for _ in range(k)]
            co = [[draw(gen.coefficient()) for _ in range(m)] for _ in range(k)]
            co, _ = gen.repair_cancellation(l, exps, co)
            shells.append([l, exps, co])
        bd[el] = shells
    atoms = [draw(st.sampled_from(els)) for _ in range(draw(st.sampled_from([1, 2, 3, 4, 5, 11])))]
    integer = draw(st.booleans())
    coords = [[draw(st.integers(-5, 5)) if integer else draw(st.floats(-5, 5, allow_nan=False)) for _ in range(3)]
              for _ in atoms]
    nshell = sum(len(bd[a]) for a in atoms)
    mode = draw(st.sampled_from(["str", "list", "tuple"]))
    if mode == "str":
        ct = draw(st.sampled_from(["c", "cartesian", "p", "spherical"]))
    else:
        ct = [draw(st.sampled_from(["c", "cartesian", "p", "spherical"])) for _ in range(nshell)]
    return {"basis_dict": bd, "atoms": atoms, "atoms_tuple": draw(st.booleans()), "coords": coords, "int_coords": integer,
            "coord_types": ct, "ct_mode": mode, "repeats": draw(st.integers(2, 3)), "cart": draw(st.booleans())}


NORM = {"c": "cartesian", "cartesian": "cartesian", "p": "spherical", "spherical": "spherical"}


def _snap(x):
    if isinstance(x, np.ndarray):
        return ("nd", x.dtype.str, x.shape, x.tobytes())
    if isinstance(x, dict):
        return ("dict", tuple((k, _snap(v)) for k, v in x.items()))
    if isinstance(x, (list, tuple)):
        return (type(x).__name__, tuple(_snap(v) for v in x))
    return ("val", repr(x))


def judge_builder(case):
    v = Verdict(classes=["coord_types-" + case["ct_mode"], "int-coords" if case["int_coords"] else "float-coords"])
    v.nontrivial = case["ct_mode"] in ("list", "tuple")
    bd = {el: [(l, np.array(e), np.array(c)) for l, e, c in shells] for el, shells in case["basis_dict"].items()}
    atoms = tuple(case["atoms"]) if case["atoms_tuple"] else list(case["atoms"])
    coords = np.array(case["coords"], dtype=int if case["int_coords"] else float)
    ct = case["coord_types"]
    ct = ct if case["ct_mode"] == "str" else (tuple(ct) if case["ct_mode"] == "tuple" else list(ct))
    args = (bd, atoms, coords, ct)
    before = _snap(args)
    flat = [ct] * 10 ** 3 if isinstance(ct, str) else list(ct)
    for rep in range(case["repeats"]):
        shells = lib(make_contractions, *args)
        after = _snap(args)
        if after != before:
            names = ["basis_dict", "atoms", "coords", "coord_types"]
            changed = [n for n, a, b in zip(names, before[1], after[1]) if a != b]
            return v.fail(f"make_contractions altered its argument(s) {changed} (call {rep + 1}); coord_types now {args[3]!r}")
        exp = []
        for ia, (a, xyz) in enumerate(zip(case["atoms"], case["coords"])):
            for (l, e, c) in case["basis_dict"][a]:
                exp.append((l, e, c, xyz, ia))
        if len(shells) != len(exp):
            return v.fail(f"make_contractions returned {len(shells)} shells, expected {len(exp)}")
        for i, (s, (l, e, c, xyz, ia)) in enumerate(zip(shells, exp)):
            ok = (s.angmom == l and np.array_equal(s.exps, np.array(e)) and np.array_equal(s.coeffs, np.array(c))
                  and np.array_equal(s.coord, np.array(xyz, dtype=float)) and s.coord_type == NORM[flat[i]]
                  and s.icenter == ia)
            if not ok:
                return v.fail(f"make_contractions shell {i}: got (l={s.angmom}, coord={s.coord.tolist()}, type={s.coord_type}, "
                              f"icenter={s.icenter}), expected (l={l}, coord={xyz}, type={NORM[flat[i]]}, icenter={ia})")
    # PySCF-style molecule built from the same model

    class Mole:  # noqa: D401 - mimics pyscf.gto.mole.Mole's internal format
        pass

    mol = Mole()
    mol._atom = [(a, tuple(float(x) for x in xyz)) for a, xyz in zip(case["atoms"], case["coords"])]
    mol._basis = {el: [[l] + [[ex] + list(row) for ex, row in zip(e, c)] for l, e, c in shells]
                  for el, shells in case["basis_dict"].items()}
    mol.cart = case["cart"]
    snap = _snap((mol._atom, mol._basis))
    shells = lib(from_pyscf, mol)
    if _snap((mol._atom, mol._basis)) != snap:
        return v.fail("from_pyscf altered the molecule's data")
    exp = [(l, e, c, xyz) for a, xyz in zip(case["atoms"], case["coords"]) for (l, e, c) in case["basis_dict"][a]]
    if len(shells) != len(exp):
        return v.fail(f"from_pyscf returned {len(shells)} shells, expected {len(exp)}")
    for i, (s, (l, e, c, xyz)) in enumerate(zip(shells, exp)):
        if not (s.angmom == l and np.array_equal(s.exps, np.array(e)) and np.array_equal(s.coeffs, np.array(c))
                and np.array_equal(s.coord, np.array(xyz, dtype=float))
                and s.coord_type == ("cartesian" if case["cart"] else "spherical")):
            return v.fail(f"from_pyscf shell {i} does not preserve the molecule's data")
    return v


def shards(tier):
    k, n = (8, 60) if tier == "quick" else (32, 300)
    return [{"id": i, "n": n} for i in range(k)]


SUBCHECKS = [
    SubCheck("nwchem", judge_file, shards, strategy=lambda s: model_st("nwchem")),
    SubCheck("gbs", judge_file, shards, strategy=lambda s: model_st("gbs")),
    SubCheck("builders", judge_builder, shards, strategy=lambda s: builder_st()),
]
