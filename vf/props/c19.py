"""C19 - calls are pure: arguments, shells and global numerical state never change; values depend only on the arguments."""
import os
import tempfile
import warnings

import numpy as np
from hypothesis import strategies as st
from hypothesis.stateful import RuleBasedStateMachine, initialize, rule

from vf import gen, iodata_standin, quant
from vf.ref import r4
from vf.core import Verdict, mk_shell, nfunc
from vf.run import SubCheck

from gbasis.contractions import GeneralizedContractionShell
from gbasis.evals import density as gd
from gbasis.evals import stress_tensor as gs
from gbasis.evals.electrostatic_potential import electrostatic_potential
from gbasis.evals.eval import evaluate_basis
from gbasis.evals.eval_deriv import evaluate_deriv_basis
from gbasis.integrals.electron_repulsion import electron_repulsion_integral
from gbasis.integrals.moment import moment_integral
from gbasis.integrals.overlap import overlap_integral
from gbasis.integrals.overlap_asymm import overlap_integral_asymmetric
from gbasis.integrals.point_charge import point_charge_integral
from gbasis.parsers import make_contractions, parse_gbs, parse_nwchem
from gbasis.wrappers import from_iodata

RULE = ("A Hypothesis RuleBasedStateMachine over a shared pool (2-3 shell objects, points, charge/coordinate arrays, density "
        "matrix (in half of the histories symmetric only to round-off, 3e-10 in one element), transformation, coord_types list, basis dictionary, atoms/coordinates, basis-set files).  Rules with generated "
        "arguments: every public integral / evaluation / density / stress / ESP / import function as a VALID call on the pooled "
        "objects; the same functions as deliberately INVALID calls (wrong shape, wrong dtype incl. non-numeric arrays, wrong "
        "length, bad notation / deriv_type / coordinate type, negative threshold, mismatched or non-symmetric density matrix); "
        "recall_after_inplace_change (a valid call made twice in a row on the same objects, the contents of the points / density "
        "matrix / transformation / origin and nuclei / first shell's centre changed IN PLACE in between, no other call intervening; "
        "the second value is the one judged against fresh copies); "
        "import_iodata (from_iodata on one of two pooled IOData stand-ins with different conventions; the imported shells join the pool); set_param (new exps / coeffs / coord through the setters, or by changing in place the arrays the shell holds); renormalise (assign_norm_cont); set_errstate.  Invariants "
        "after EVERY step: byte-level snapshots of every pooled array/list and of every shell's coord, exps, coeffs, norm_cont, "
        "coord_type, angmom equal the model (which changes only through set_param / renormalise); numpy.geterr() equals what the "
        "machine last set, whether the call returned or raised; the value of a valid call equals the value of the same call on "
        "freshly constructed, never shared copies (1e-13; both raising counts as equal); a shell is unit-normalised as "
        "constructed and after renormalise.  Non-trivial history: a valid call repeated after a different intervening call, an "
        "invalid call followed by a valid one, or set_param + renormalise followed by a call.")
ASSUMPTIONS = ["histories up to 20 (quick) / 30 (thorough) steps over the listed public functions; object kinds outside the pool are not covered"]

VALID = [q.name for q in quant.ALL] + ["overlap_integral_asymmetric", "overlap_integral[screened]", "make_contractions",
                                       "parse_nwchem", "parse_gbs", "evaluate_density_using_evaluated_orbs",
                                       "evaluate_general_kinetic_energy_density", "evaluate_deriv_reduced_density_matrix",
                                       "overlap_integral[tol_screen=0]", "iodata:0:eval", "iodata:1:eval", "iodata:0:overlap", "iodata:1:overlap", "iodata:0:deriv",
                                       "iodata:1:deriv", "electrostatic_potential[threshold,grid]"]
INVALID = ["points-wrong-shape", "points-object-dtype", "charges-wrong-length", "charges-non-numeric", "esp-non-numeric-charges",
           "esp-non-numeric-coords", "esp-negative-threshold", "esp-gamma-wrong-size", "eri-bad-notation", "deriv-bad-type",
           "deriv-negative-order", "deriv-float-order", "density-nonsymmetric", "density-wrong-size", "moment-float-orders",
           "overlap-bool-tol", "overlap-string-tol", "overlap-negative-tol", "make_contractions-short-list", "make_contractions-bad-string", "stress-bad-alpha",
           "basis-not-a-list", "transform-wrong-shape", "shell-bad-coord-type", "parse-missing-file", "shell-exps-wrong-length",
           "shell-coeffs-wrong-rows", "shell-coeffs-wrong-rows-1d"]
ERR = ["ignore", "warn", "raise"]
NWCHEM = 'BASIS "ao basis" PRINT\nH    S\n      3.42525091         0.15432897\n      0.62391373         0.53532814\nH    SP\n      1.5   0.3  0.4\n      0.4   0.7  0.6\nEND\n'
GBS = "****\nH     0\nS   2   1.00\n      0.3425250914D+01       0.1543289673D+00\n      0.6239137298D+00       0.5353281423D+00\n****\n"


def snap(x):
    if isinstance(x, np.ndarray):
        return ("nd", x.dtype.str, x.shape, x.tobytes())
    if isinstance(x, dict):
        return ("dict", tuple((k, snap(v)) for k, v in x.items()))
    if isinstance(x, (list, tuple)):
        return (type(x).__name__, tuple(snap(v) for v in x))
    if isinstance(x, GeneralizedContractionShell):
        try:
            sph = tuple(x.angmom_components_sph)
        except Exception as e:  # noqa: BLE001 - a convention that stopped supporting the shell is a change too
            sph = ("raises", type(e).__name__)
        return ("shell", id(x), x.angmom, x.coord_type, snap(x.coord), snap(x.exps), snap(x.coeffs), snap(x.norm_cont), x.icenter,
                tuple(map(tuple, np.asarray(x.angmom_components_cart).tolist())), sph)
    return ("val", repr(x))


class World:
    """Interpreter of a history: the same code runs under Hypothesis and when a stored history is replayed."""

    def __init__(self, init):
        self.init = init
        self.err0 = np.geterr()
        self.err = dict(divide="warn", over="warn", under="ignore", invalid="warn")
        np.seterr(**self.err)
        self.model = [dict(d) for d in init["shells"]]
        self.shells = [mk_shell(d) for d in self.model]
        self.norms = [s.norm_cont.copy() for s in self.shells]
        n = sum(nfunc(d) for d in self.model)
        self.n = n
        self.env = {
            "points": np.array(init["points"], dtype=float), "nuc_coords": np.array(init["nuc_coords"], dtype=float),
            "nuc_charges": np.array(init["nuc_charges"], dtype=float), "origin": np.array(init["origin"], dtype=float),
            "orders": np.array(init["orders"], dtype=int), "deriv_order": np.array(init["deriv_order"], dtype=int),
            "alpha": init["alpha"], "beta": init["beta"], "tol_screen": 1e-5,
            "gamma": np.array(init["gamma"], dtype=float),
        }
        self.transform = np.array(init["transform"], dtype=float)
        self.gamma_t = np.array(init["gamma_t"], dtype=float)
        if init.get("gamma_roundoff"):
            # density matrices symmetric only to round-off (3e-10 in one element: what a product C n C^T leaves behind); the
            # library accepts them (numpy.allclose) and must not tidy them up in place
            self.env["gamma"][0, -1] += 3e-10
            self.gamma_t[0, -1] += 3e-10
            self.flags_init = "gamma-symmetric-to-roundoff"
        self.coord_types = list(init["coord_types"])
        self.atoms = ["H", "H"]
        self.coords = np.array([[0.0, 0.0, 0.0], [0.0, 0.0, 1.4]])
        self.basis_dict = {"H": [(0, np.array([3.4, 0.6]), np.array([[0.15], [0.53]])), (1, np.array([0.8]), np.array([[1.0]]))]}
        self.tmp = tempfile.mkdtemp(prefix="vf-c19-")
        self.paths = {"nwchem": os.path.join(self.tmp, "b.nwchem"), "gbs": os.path.join(self.tmp, "b.gbs")}
        open(self.paths["nwchem"], "w").write(NWCHEM)
        open(self.paths["gbs"], "w").write(GBS)
        # two IOData stand-ins with different component conventions; shells imported from them join the pool
        self.mol_shells = [
            {"l": 1, "coord": [0.0, 0.1, -0.2], "exps": [1.1, 0.3], "coeffs": [[0.6], [0.5]], "type": "cartesian"},
            {"l": 2, "coord": [0.4, -0.3, 0.5], "exps": [0.9], "coeffs": [[1.0]], "type": "cartesian"},
            {"l": 2, "coord": [-0.5, 0.2, 0.3], "exps": [1.4, 0.5], "coeffs": [[0.3], [0.8]], "type": "spherical"},
        ]
        self.mol_conv = init.get("iodata_conv") or [
            {str(l): {"c": [list(c) for c in r4.default_cart(l)], "p": r4.default_sph(l)} for l in (1, 2)},
            {str(l): {"c": [list(c) for c in r4.default_cart(l)][::-1], "p": r4.default_sph(l)[::-1]} for l in (1, 2)}]
        self.mols = [iodata_standin.molecule(self.mol_shells, c) for c in self.mol_conv]
        self.imported = [None, None]
        self.history = []
        self.snapshot = self.take()
        self.flags = {self.flags_init} if getattr(self, "flags_init", None) else set()
        self.last_valid = None
        self.after_invalid = False
        self.after_renorm = False

    def close(self):
        np.seterr(**self.err0)
        for p in self.paths.values():
            if os.path.exists(p):
                os.unlink(p)
        os.rmdir(self.tmp)

    def pool(self):
        mols = [[m.atcoords, [(sh_.exponents, sh_.coeffs, list(sh_.angmoms), list(sh_.kinds)) for sh_ in m.obasis.shells],
                 {str(k): list(v) for k, v in m.obasis.conventions.items()}] for m in self.mols]
        return [self.shells, self.env["points"], self.env["nuc_coords"], self.env["nuc_charges"], self.env["origin"],
                self.env["orders"], self.env["deriv_order"], self.env["gamma"], self.transform, self.gamma_t, self.coord_types,
                self.atoms, self.coords, self.basis_dict, mols, [list(b) if b is not None else None for b in self.imported]]

    def take(self):
        return snap(self.pool())

    # -- calls -------------------------------------------------------------------------------------
    def call_valid(self, name, use_t, shells, env, transform, gamma_t, aux):
        t = transform if use_t else None
        g = gamma_t if use_t else env["gamma"]
        if name in quant.BYNAME:
            q = quant.BYNAME[name]
            return q(shells, env, t, g) if q.density else q(shells, env, t)
        if name == "overlap_integral_asymmetric":
            return overlap_integral_asymmetric(shells[:1], shells[1:])
        if name == "overlap_integral[screened]":
            return overlap_integral(shells, tol_screen=1e-4)
        if name == "overlap_integral[tol_screen=0]":
            return overlap_integral(shells, tol_screen=0.0)
        if name == "make_contractions":
            out = make_contractions(aux["basis_dict"], aux["atoms"], aux["coords"], aux["coord_types"])
            return np.concatenate([np.concatenate([s.coord, s.exps, s.coeffs.ravel(), s.norm_cont.ravel()]) for s in out])
        if name in ("parse_nwchem", "parse_gbs"):
            out = (parse_nwchem if name == "parse_nwchem" else parse_gbs)(aux["paths"]["nwchem" if name == "parse_nwchem" else "gbs"])
            return np.concatenate([np.concatenate([[l], np.ravel(e), np.ravel(c)]) for el in sorted(out) for (l, e, c) in out[el]])
        if name == "evaluate_density_using_evaluated_orbs":
            return gd.evaluate_density_using_evaluated_orbs(env["gamma"], evaluate_basis(shells, env["points"]))
        if name == "evaluate_general_kinetic_energy_density":
            return gd.evaluate_general_kinetic_energy_density(aux["psd"], shells, env["points"], env["alpha"])
        if name.startswith("iodata:"):
            which = int(name[7])
            shells_io = aux["imported"][which]
            if shells_io is None:
                return np.zeros(1)
            fn = {"eval": lambda: evaluate_basis(shells_io, env["points"]), "overlap": lambda: overlap_integral(shells_io),
                  "deriv": lambda: evaluate_deriv_basis(shells_io, env["points"], env["deriv_order"])}[name[9:]]
            return fn()
        if name == "electrostatic_potential[threshold,grid]":
            # a grid of 3003 points, three of them 0.01 bohr from the first nucleus (inside the threshold, not on the nucleus):
            # the nucleus is left out for those points, and the numbers must not depend on what the process did before
            nuc = np.asarray(env["nuc_coords"], dtype=float).reshape(-1, 3)
            k = np.arange(3000, dtype=float)
            grid = np.stack([0.37 * np.sin(0.11 * k) * (1 + k / 900.0), 0.41 * np.cos(0.07 * k) * (1 + k / 700.0), 0.002 * k - 3.0], axis=1)
            near = nuc[0][None, :] + 0.01 * np.eye(3)
            pts = np.concatenate([near, grid + np.asarray(env["points"], dtype=float)[0][None, :]], axis=0)
            return electrostatic_potential(shells, env["gamma"], pts, nuc, np.asarray(env["nuc_charges"], dtype=float), threshold_dist=0.05)
        if name == "evaluate_deriv_reduced_density_matrix":
            return gd.evaluate_deriv_reduced_density_matrix(env["deriv_order"], np.array([1, 0, 0]), env["gamma"], shells, env["points"])
        raise KeyError(name)

    def call_invalid(self, kind):
        b, e = self.shells, self.env
        bad_pts = e["points"][:, :2]
        if kind == "points-wrong-shape":
            return evaluate_basis(b, bad_pts)
        if kind == "points-object-dtype":
            return evaluate_basis(b, e["points"].astype(object))
        if kind == "charges-wrong-length":
            return point_charge_integral(b, e["nuc_coords"], e["nuc_charges"][:-1] if len(e["nuc_charges"]) > 1 else np.ones(5))
        if kind == "charges-non-numeric":
            return point_charge_integral(b, e["nuc_coords"], np.array(["x"] * len(e["nuc_charges"])))
        if kind == "esp-non-numeric-charges":
            return electrostatic_potential(b, e["gamma"], e["points"], e["nuc_coords"], np.array(["x"] * len(e["nuc_charges"])))
        if kind == "esp-non-numeric-coords":
            return electrostatic_potential(b, e["gamma"], e["points"], e["nuc_coords"].astype(object).astype(str), e["nuc_charges"])
        if kind == "esp-negative-threshold":
            return electrostatic_potential(b, e["gamma"], e["points"], e["nuc_coords"], e["nuc_charges"], threshold_dist=-1.0)
        if kind == "esp-gamma-wrong-size":
            return electrostatic_potential(b, np.eye(self.n + 1), e["points"], e["nuc_coords"], e["nuc_charges"])
        if kind == "eri-bad-notation":
            return electron_repulsion_integral(b[:1], notation="mulliken")
        if kind == "deriv-bad-type":
            return evaluate_deriv_basis(b, e["points"], e["deriv_order"], deriv_type="fast")
        if kind == "deriv-negative-order":
            return evaluate_deriv_basis(b, e["points"], np.array([0, -1, 0]))
        if kind == "deriv-float-order":
            return evaluate_deriv_basis(b, e["points"], np.array([1.0, 0.0, 0.0]))
        if kind == "density-nonsymmetric":
            g = e["gamma"].copy()
            g[0, -1] += 1.0
            return gd.evaluate_density(g if self.n > 1 else np.array([[np.nan]]), b, e["points"])
        if kind == "density-wrong-size":
            return gd.evaluate_density(np.eye(self.n + 2), b, e["points"])
        if kind == "moment-float-orders":
            return moment_integral(b, e["origin"], e["orders"].astype(float))
        if kind == "overlap-bool-tol":
            return overlap_integral(b, tol_screen=True)
        if kind == "overlap-string-tol":
            return overlap_integral(b, tol_screen="1e-8")
        if kind == "overlap-negative-tol":
            return overlap_integral(b, tol_screen=-1.0)
        if kind == "make_contractions-short-list":
            return make_contractions(self.basis_dict, self.atoms, self.coords, self.coord_types[:1])
        if kind == "make_contractions-bad-string":
            return make_contractions(self.basis_dict, self.atoms, self.coords, "polar")
        if kind == "stress-bad-alpha":
            return gs.evaluate_stress_tensor(e["gamma"], b, e["points"], alpha="1")
        if kind == "basis-not-a-list":
            return overlap_integral(b[0])
        if kind == "transform-wrong-shape":
            return overlap_integral(b, transform=np.ones((2, self.n + 3)))
        if kind == "shell-exps-wrong-length":
            # a refused update must leave the shell as it was
            b[0].exps = np.concatenate([b[0].exps, [0.77]])
            return None
        if kind == "shell-coeffs-wrong-rows":
            b[0].coeffs = np.concatenate([b[0].coeffs, b[0].coeffs[:1]], axis=0)
            return None
        if kind == "shell-coeffs-wrong-rows-1d":
            b[-1].coeffs = np.ones(b[-1].exps.size + 2)
            return None
        if kind == "shell-bad-coord-type":
            return GeneralizedContractionShell(b[0].angmom, b[0].coord, b[0].coeffs, b[0].exps, "polar")
        if kind == "parse-missing-file":
            return parse_nwchem(os.path.join(self.tmp, "missing.nwchem"))
        raise KeyError(kind)

    def fresh(self):
        """Never-shared copies of everything a valid call takes (shells rebuilt with the same normalisation history)."""
        shells = []
        for d, nrm in zip(self.model, self.norms):
            s = mk_shell(d)
            s.norm_cont = nrm.copy()
            shells.append(s)
        env = {k: (v.copy() if isinstance(v, np.ndarray) else v) for k, v in self.env.items()}
        aux = {"basis_dict": {k: [(l, e.copy(), c.copy()) for l, e, c in v] for k, v in self.basis_dict.items()},
               "atoms": list(self.atoms), "coords": self.coords.copy(), "coord_types": list(self.coord_types),
               "paths": self.paths, "psd": self.env["gamma"] @ self.env["gamma"].T,
               # never-shared copies: imported afresh from a fresh stand-in of the same molecule
               "imported": [None if b is None else from_iodata(iodata_standin.molecule(self.mol_shells, c))
                            for b, c in zip(self.imported, self.mol_conv)]}
        return shells, env, self.transform.copy(), self.gamma_t.copy(), aux

    def step(self, st_):
        """Execute one step; return a failure message or None."""
        self.history.append(st_)
        kind = st_["rule"]
        with warnings.catch_warnings():
            warnings.simplefilter("ignore")
            if kind == "valid":
                pre = st_.get("pre")
                if pre:
                    # the call is made twice in a row on the SAME objects with the contents of one of them changed in place in
                    # between (no reference call on fresh copies intervenes): a result remembered per object would be stale
                    aux0 = {"basis_dict": self.basis_dict, "atoms": self.atoms, "coords": self.coords, "coord_types": self.coord_types,
                            "paths": self.paths, "psd": self.env["gamma"] @ self.env["gamma"].T, "imported": self.imported}
                    try:
                        self.call_valid(st_["name"], st_["t"], self.shells, self.env, self.transform, self.gamma_t, aux0)
                    except Exception:  # noqa: BLE001 - judged by the second call
                        pass
                    np.seterr(**self.err)
                    if pre == "points":
                        self.env["points"] += 0.25
                    elif pre == "gamma":
                        self.env["gamma"] *= 0.5
                        self.gamma_t *= 0.5
                    elif pre == "transform":
                        self.transform *= 1.25
                    elif pre == "origin":
                        self.env["origin"] += 0.5
                        self.env["nuc_coords"] += 0.125
                    else:
                        d = dict(self.model[0])
                        d["coord"] = [c + 0.125 for c in d["coord"]]
                        self.shells[0].coord[:] = np.array(d["coord"], dtype=float)
                        self.model[0] = d
                    self.snapshot = self.take()
                    self.flags.add("recall-after-inplace-change")
                aux = {"basis_dict": self.basis_dict, "atoms": self.atoms, "coords": self.coords, "coord_types": self.coord_types,
                       "paths": self.paths, "psd": self.env["gamma"] @ self.env["gamma"].T, "imported": self.imported}
                try:
                    got, exc = self.call_valid(st_["name"], st_["t"], self.shells, self.env, self.transform, self.gamma_t, aux), None
                except Exception as e:  # noqa: BLE001
                    got, exc = None, e
                msg = self.invariants(f"valid call {st_['name']}")
                if msg:
                    return msg
                fs, fe, ft, fg, fa = self.fresh()
                try:
                    want, exc2 = self.call_valid(st_["name"], st_["t"], fs, fe, ft, fg, fa), None
                except Exception as e:  # noqa: BLE001
                    want, exc2 = None, e
                np.seterr(**self.err)  # the reference call on fresh copies must not disturb the machine's state
                if (exc is None) != (exc2 is None):
                    return (f"{st_['name']} on the shared objects {'raised ' + repr(exc) if exc else 'returned'} but on fresh copies "
                            f"{'raised ' + repr(exc2) if exc2 else 'returned'} after history {[h.get('name', h['rule']) for h in self.history]}")
                if exc is None:
                    if got.shape != want.shape:
                        return f"{st_['name']}: shape depends on the call history"
                    same = (got == want) | (np.isnan(got) & np.isnan(want)) if got.dtype.kind == "f" else (got == want)
                    if not np.all(same):
                        with np.errstate(all="ignore"):
                            dev = np.abs(np.where(same, 0, got - want)).max() / (np.abs(want[np.isfinite(want)]).max() + 1e-300)
                        if not dev <= 1e-13:
                            return (f"{st_['name']} returns different values on the shared objects than on fresh copies ({dev:.3e}) after "
                                    f"history {[h.get('name', h['rule']) for h in self.history]}")
                if self.last_valid is not None and self.last_valid != st_["name"]:
                    self.flags.add("call-after-different-call")
                if self.after_invalid:
                    self.flags.add("valid-after-invalid")
                if self.after_renorm:
                    self.flags.add("call-after-set_param+renormalise")
                self.last_valid = st_["name"]
                self.after_invalid = False
                return None
            if kind == "invalid":
                try:
                    self.call_invalid(st_["name"])
                except Exception:  # noqa: BLE001 - rejection is expected; only purity is judged
                    pass
                self.after_invalid = True
                return self.invariants(f"invalid call {st_['name']}")
            if kind == "set_param":
                i = st_["shell"] % len(self.shells)
                d = dict(self.model[i])
                inplace = bool(st_.get("inplace"))  # change the array the shell holds instead of assigning a new one
                if st_["what"] == "exps":
                    d["exps"] = [e * st_["factor"] for e in d["exps"]]
                    if inplace:
                        self.shells[i].exps[:] = np.array(d["exps"], dtype=float)
                    else:
                        self.shells[i].exps = np.array(d["exps"], dtype=float)
                elif st_["what"] == "coeffs":
                    d["coeffs"] = [[c * (1 + 0.5 * st_["factor"] * (k + 1) / (1 + k + m)) for m, c in enumerate(row)]
                                   for k, row in enumerate(d["coeffs"])]
                    if inplace:
                        self.shells[i].coeffs[:] = np.array(d["coeffs"], dtype=float)
                    else:
                        self.shells[i].coeffs = np.array(d["coeffs"], dtype=float)
                else:
                    d["coord"] = [c + st_["factor"] - 1 for c in d["coord"]]
                    if inplace:
                        self.shells[i].coord[:] = np.array(d["coord"], dtype=float)
                    else:
                        self.shells[i].coord = np.array(d["coord"], dtype=float)
                self.model[i] = d
                self.snapshot = self.take()
                self.pending = True
                return None
            if kind == "renormalise":
                i = st_["shell"] % len(self.shells)
                self.shells[i].assign_norm_cont()
                self.norms[i] = self.shells[i].norm_cont.copy()
                self.snapshot = self.take()
                np.seterr(**self.err)
                dg = np.diag(overlap_integral([self.shells[i]]))
                np.seterr(**self.err)
                if not np.all(np.abs(dg - 1) <= 1e-10):
                    return f"shell {i} is not unit-normalised after assign_norm_cont(): overlap diagonal {dg.tolist()}"
                if getattr(self, "pending", False):
                    self.after_renorm = True
                return self.invariants("renormalise")
            if kind == "import_iodata":
                w_ = st_["which"] % 2
                before = self.take()
                try:
                    new = from_iodata(self.mols[w_])
                except Exception as e:  # noqa: BLE001
                    return f"from_iodata raised {type(e).__name__}: {e}"
                if self.take() != before:
                    names = ["pool"] * 14 + ["IOData molecules", "shells imported earlier through from_iodata"]
                    changed = [n for n, a, b in zip(names, before[1], self.take()[1]) if a != b]
                    np.seterr(**self.err)
                    return f"from_iodata(molecule {w_}) modified {sorted(set(changed))}"
                self.imported[w_] = new
                self.snapshot = self.take()
                self.flags.add("iodata-import")
                return self.invariants(f"from_iodata(molecule {w_})")
            if kind == "set_errstate":
                self.err = dict(self.err, divide=st_["divide"], over=st_["over"], invalid=st_["invalid"])
                np.seterr(**self.err)
                return None
        raise KeyError(kind)

    def invariants(self, what):
        now = np.geterr()
        if now != self.err:
            np.seterr(**self.err)
            return f"{what} changed the process-wide numpy error state from {self.err} to {now}"
        if self.take() != self.snapshot:
            names = ["shells", "points", "nuc_coords", "nuc_charges", "origin", "orders", "deriv_order", "gamma", "transform", "gamma_t",
                     "coord_types", "atoms", "coords", "basis_dict", "IOData molecules", "shells imported earlier through from_iodata"]
            changed = [n for n, a, b in zip(names, self.snapshot[1], self.take()[1]) if a != b]
            return f"{what} modified its argument(s): {changed}"
        return None

    def check_constructed(self):
        for i, s in enumerate(self.shells):
            dg = np.diag(overlap_integral([s]))
            if not np.all(np.abs(dg - 1) <= 1e-10):
                return f"shell {i} is not unit-normalised as constructed: overlap diagonal {dg.tolist()}"
        return None


@st.composite
def init_st(draw):
    shells = draw(gen.basis(nmin=2, nmax=3, lmax=2, kmax=2, mmax=2, exp_lo=0.1, exp_hi=10.0, halves=(0.5, 2.0)))
    n = sum(nfunc(s) for s in shells)
    cents = [s["coord"] for s in shells]
    G, _ = draw(gen.sym_matrix(n))
    k = draw(st.sampled_from([max(1, n - 1), n, n + 1]))
    T = [[draw(st.floats(-1, 1, allow_nan=False, width=32)) for _ in range(n)] for _ in range(k)]
    Gt, _ = draw(gen.sym_matrix(k))
    pts = draw(gen.points_near(cents, nmin=2, nmax=3, far=10.0))
    nn = draw(st.integers(1, 2))
    nuc = [[c + 0.3 for c in cents[i % len(cents)]] for i in range(nn)]
    # basis_dict "H" has two shells per atom, two atoms -> four coord_types entries
    return {"shells": shells, "points": pts, "nuc_coords": nuc, "nuc_charges": [float(draw(st.integers(1, 8))) for _ in nuc],
            "origin": [draw(st.floats(-1, 1, allow_nan=False, width=32)) for _ in range(3)],
            "orders": [list(draw(st.tuples(*[st.integers(0, 2)] * 3))) for _ in range(2)],
            "deriv_order": list(draw(st.tuples(*[st.integers(0, 2)] * 3))), "alpha": draw(st.sampled_from([0, 0.5, 1, 0.3])),
            "beta": draw(st.sampled_from([0, 1, -0.5])), "gamma": G, "transform": T, "gamma_t": Gt,
            "coord_types": [draw(st.sampled_from(["cartesian", "spherical", "c", "p"])) for _ in range(4)],
            "gamma_roundoff": draw(st.booleans())}


def judge(case):
    """Replay a stored history through the same interpreter (no Hypothesis involved)."""
    w = World(case["init"])
    try:
        v = Verdict()
        msg = w.check_constructed()
        if msg:
            return v.fail(msg)
        for st_ in case["steps"]:
            msg = w.step(dict(st_))
            if msg:
                return v.fail(msg)
        v.nontrivial = bool(w.flags)
        v.classes = sorted(w.flags) + sorted({"rule-" + s["rule"] for s in case["steps"]})
        return v
    finally:
        w.close()


def machine(shard, report):
    class Purity(RuleBasedStateMachine):
        def __init__(self):
            super().__init__()
            self.w = None
            self.failed = False

        @initialize(init=init_st())
        def setup(self, init):
            self.w = World(init)
            msg = self.w.check_constructed()
            if msg:
                self.fail(msg)

        def fail(self, msg):
            self.failed = True
            v = Verdict(ok=False, msg=msg, nontrivial=True)
            case = {"init": self.w.init, "steps": self.w.history}
            self.w.close()
            self.w = None
            report(case, v)

        def do(self, step):
            msg = self.w.step(step)
            if msg:
                self.fail(msg)

        @rule(name=st.sampled_from(VALID), t=st.booleans())
        def valid(self, name, t):
            self.do({"rule": "valid", "name": name, "t": bool(t and name in quant.BYNAME)})

        # the same rule under three more names: Hypothesis picks rules uniformly, and valid calls are what the
        # history-independence invariant needs most
        @rule(name=st.sampled_from(VALID[:12]), t=st.booleans())
        def valid_integral(self, name, t):
            self.do({"rule": "valid", "name": name, "t": bool(t and name in quant.BYNAME)})

        @rule(name=st.sampled_from(VALID[12:23]), t=st.booleans())
        def valid_field(self, name, t):
            self.do({"rule": "valid", "name": name, "t": bool(t and name in quant.BYNAME)})

        @rule(name=st.sampled_from(VALID[:23]), t=st.booleans(), pre=st.sampled_from(["points", "gamma", "transform", "origin", "coord"]))
        def recall_after_inplace_change(self, name, t, pre):
            self.do({"rule": "valid", "name": name, "t": bool(t and name in quant.BYNAME), "pre": pre})

        @rule(name=st.sampled_from(VALID[23:]))
        def valid_import(self, name):
            self.do({"rule": "valid", "name": name, "t": False})

        @rule(name=st.sampled_from(INVALID))
        def invalid(self, name):
            self.do({"rule": "invalid", "name": name})

        @rule(shell=st.integers(0, 2), what=st.sampled_from(["exps", "coeffs", "coord"]), factor=st.sampled_from([0.5, 1.5, 2.0, 1.1]),
              inplace=st.booleans())
        def set_param(self, shell, what, factor, inplace):
            self.do({"rule": "set_param", "shell": shell, "what": what, "factor": factor, "inplace": inplace})

        @rule(which=st.integers(0, 1))
        def import_iodata(self, which):
            self.do({"rule": "import_iodata", "which": which})

        @rule(shell=st.integers(0, 2))
        def renormalise(self, shell):
            self.do({"rule": "renormalise", "shell": shell})

        @rule(divide=st.sampled_from(ERR), over=st.sampled_from(ERR), invalid=st.sampled_from(ERR))
        def set_errstate(self, divide, over, invalid):
            self.do({"rule": "set_errstate", "divide": divide, "over": over, "invalid": invalid})

        def teardown(self):
            if self.w is not None:
                w = self.w
                v = Verdict(nontrivial=bool(w.flags))
                v.classes = sorted(w.flags) + ["rule-" + s["rule"] for s in w.history] + \
                    [f"valid:{s['name']}" for s in w.history if s["rule"] == "valid"]
                case = {"init": w.init, "steps": w.history}
                w.close()
                self.w = None
                report(case, v)

    return Purity


def shards(tier):
    k, n, steps = (16, 6, 20) if tier == "quick" else (64, 30, 30)
    return [{"id": i, "n": n, "steps": steps, "cost": n * steps} for i in range(k)]


SUBCHECKS = [SubCheck("history", judge, shards, machine=machine)]
EXPECTED_CLASSES = ["history/iodata-import", "history/call-after-different-call", "history/valid-after-invalid", "history/call-after-set_param+renormalise", "history/recall-after-inplace-change", "history/gamma-symmetric-to-roundoff"]
