"""C20 - overlap screening follows the documented cutoff and is conservative."""
import math

import numpy as np
from hypothesis import strategies as st

from vf import gen
from vf.core import Verdict, lib, mk_basis, nfunc
from vf.ref import r3
from vf.run import SubCheck

from gbasis.integrals.overlap_asymm import overlap_integral_asymmetric
from gbasis.integrals.overlap import Overlap, is_integral_screened, overlap_integral

RULE = ("Hypothesis draws bases of 2-5 generalized mixed-type shells (l 0..3, K 1-4, exponents 0.05-500), two or three "
        "tolerances log-uniform in 1e-16..0.5, and places one shell pair at (1 +- 1e-9) x the documented cutoff "
        "sqrt(-(a_min+b_min)/(a_min b_min) ln tol) of a drawn tolerance (other distances 0-30 bohr); with and without a "
        "transformation.  Oracle: the documented cutoff evaluated by the harness; per shell-pair block kept blocks must be "
        "bit-identical to the unscreened matrix and removed blocks exactly zero (pairs within 1e-12 of the cutoff are not "
        "judged); tol_screen=None identical to no argument; lowering the tolerance never removes more; every removed s-type "
        "element is below tol * sum|c_i|N * sum|c_j|N; a bool tolerance is rejected.  Non-trivial: at least one block removed "
        "and one off-diagonal block kept, or a pair within 1e-6 of the cutoff.")
ASSUMPTIONS = ["cutoff formula as documented in overlap_integral / is_integral_screened"]


def cutoff(a, b, tol):
    return math.sqrt(-(a + b) / (a * b) * math.log(tol))


@st.composite
def case_st(draw):
    n = draw(st.integers(2, 5))
    tol_st = gen.log_uniform(1e-16, 0.5) | st.sampled_from([1e-16, 2e-16, 2.3e-16, 1e-15, 0.5])  # both ends of the range
    tols = sorted(draw(st.lists(tol_st, min_size=2, max_size=3, unique=True)))
    protos = [draw(gen.shell(st.integers(0, 3), [0, 0, 0], kmax=4, mmax=2, exp_lo=0.05, exp_hi=500.0)) for _ in range(n)]
    cents = [[0.0, 0.0, 0.0]]
    # second shell at (1 +- 1e-9) x cutoff of a drawn tolerance from the first
    t = tols[draw(st.integers(0, len(tols) - 1))]
    c = cutoff(min(protos[0]["exps"]), min(protos[1]["exps"]), t)
    f = draw(st.sampled_from([1 - 1e-9, 1 + 1e-9, 1 - 1e-4, 1 + 1e-4, 1.0]))
    d = [draw(st.floats(-1, 1, allow_nan=False)) for _ in range(3)]
    nrm = math.sqrt(sum(x * x for x in d))
    if nrm < 1e-2:
        d, nrm = [0.0, 0.0, 1.0], 1.0
    if draw(st.booleans()):
        d, nrm = [0.0, 1.0, 0.0], 1.0
    cents.append([c * f * x / nrm for x in d])
    for _ in range(2, n):
        mode = draw(st.integers(0, 3))
        if mode == 0:
            cents.append(list(cents[draw(st.integers(0, len(cents) - 1))]))
        else:
            r = draw(st.floats(0.0, 30.0, allow_nan=False))
            u = [draw(st.floats(-1, 1, allow_nan=False)) for _ in range(3)]
            un = math.sqrt(sum(x * x for x in u)) or 1.0
            cents.append([r * x / un for x in u])
    for s, cc in zip(protos, cents):
        s["coord"] = [float(x) for x in cc]
    nf = sum(nfunc(s) for s in protos)
    T = draw(st.none() | gen.transform_matrix(nf))
    return {"shells": protos, "tols": tols, "transform": T}


def judge(case):
    shells = case["shells"]
    v = Verdict()
    bas = mk_basis(shells)
    R = r3.refs(shells)
    off = r3.offsets(R)
    n = len(shells)
    full = lib(overlap_integral, bas)
    none = lib(overlap_integral, bas, tol_screen=None)
    if not np.array_equal(full, none):
        return v.fail("tol_screen=None differs from no screening argument")
    # "no tolerance means no screening" at every public entry point, not only in the wrapper: the class-level methods and the
    # asymmetric overlap called without a tolerance must return what the wrapper returns without one
    types = [s["type"] for s in shells]
    via_class = lib(lambda: Overlap(bas).construct_array_mix(types))
    if not np.array_equal(via_class, full):
        d = float(np.abs(via_class - full).max())
        return v.fail(f"Overlap(basis).construct_array_mix(types) without a tolerance differs from overlap_integral(basis) by {d:.3e} "
                      f"({int(np.sum((via_class == 0) & (full != 0)))} elements zeroed)")
    if n >= 2:
        asym = lib(overlap_integral_asymmetric, bas[:1], bas[1:])
        if not np.array_equal(asym, full[:off[1], off[1]:]):
            return v.fail("overlap_integral_asymmetric (which takes no tolerance) differs from the block of the unscreened overlap: "
                          f"{float(np.abs(asym - full[:off[1], off[1]:]).max()):.3e}")
        b_plain = lib(Overlap.construct_array_contraction, bas[0], bas[n - 1])
        b_none = lib(Overlap.construct_array_contraction, bas[0], bas[n - 1], tol_screen=None)
        if not np.array_equal(b_plain, b_none):
            return v.fail("Overlap.construct_array_contraction without a tolerance differs from tol_screen=None")
    try:
        overlap_integral(bas, tol_screen=True)
        return v.fail("a bool tol_screen was accepted")
    except TypeError:
        pass
    dist = np.array([[np.linalg.norm(R[j].A - R[i].A) for j in range(n)] for i in range(n)])
    removed_prev = None
    for tol in sorted(case["tols"]):
        got = lib(overlap_integral, bas, tol_screen=float(tol))
        removed = np.zeros((n, n), dtype=bool)
        for i in range(n):
            for j in range(n):
                c = cutoff(R[i].exps.min(), R[j].exps.min(), tol)
                blk = got[off[i]:off[i + 1], off[j]:off[j + 1]]
                ref = full[off[i]:off[i + 1], off[j]:off[j + 1]]
                is_zero = not blk.any()
                is_same = np.array_equal(blk, ref)
                removed[i, j] = is_zero and not is_same
                rel = abs(dist[i, j] - c) / c
                if rel <= 1e-6:
                    v.nontrivial = True
                    v.classes.append("pair-at-cutoff")
                if rel <= 1e-12:
                    continue  # rounding-dependent: not judged
                # the public predicate and the shell-pair kernel must follow the same documented rule
                flag = lib(is_integral_screened, bas[i], bas[j], float(tol))
                if bool(flag) != bool(dist[i, j] > c):
                    return v.fail(f"is_integral_screened(shell {i}, shell {j}, {tol:.3e}) = {flag} but distance {dist[i, j]!r} vs cutoff {c!r}")
                if i <= j and (i + j) % 3 == 0:
                    kb = lib(Overlap.construct_array_contraction, bas[i], bas[j], tol_screen=float(tol))
                    if bool(dist[i, j] > c) != (not kb.any()) and lib(Overlap.construct_array_contraction, bas[i], bas[j]).any():
                        return v.fail(f"Overlap.construct_array_contraction(shell {i}, shell {j}, tol_screen={tol:.3e}) does not follow the cutoff")
                if dist[i, j] > c:
                    if not is_zero:
                        return v.fail(f"tol {tol:.3e}: shells {i},{j} at distance {dist[i, j]!r} > cutoff {c!r} but the block is not zero "
                                      f"(max {np.abs(blk).max():.3e})")
                    if i != j:
                        v.classes.append("block-removed")
                    # conservative: removed s-type elements are below tol * sum|c|N * sum|c|N
                    if R[i].l == 0 and R[j].l == 0:
                        ba = (np.abs(R[i].coeffs) * R[i].cn[:, 0][None, :]).sum(axis=0)
                        bb = (np.abs(R[j].coeffs) * R[j].cn[:, 0][None, :]).sum(axis=0)
                        bound = tol * ba[:, None] * bb[None, :]
                        if np.any(np.abs(ref) >= bound * (1 + 1e-9)):
                            return v.fail(f"tol {tol:.3e}: removed s-s element {np.abs(ref).max():.3e} not below the bound {bound.max():.3e}")
                        v.classes.append("ss-bound-checked")
                else:
                    if not is_same:
                        return v.fail(f"tol {tol:.3e}: shells {i},{j} at distance {dist[i, j]!r} <= cutoff {c!r} but the block differs "
                                      f"from the unscreened one (max dev {np.abs(blk - ref).max():.3e})")
                    if i != j:
                        v.classes.append("block-kept")
        if removed_prev is not None and np.any(removed_prev & ~removed):
            return v.fail(f"lowering the tolerance removed more blocks (tol {tol:.3e})")
        removed_prev = removed
        if removed.any() and (~removed & ~np.eye(n, dtype=bool)).any():
            v.nontrivial = True
        if case.get("transform") is not None:
            T = np.array(case["transform"], dtype=float)
            gt = lib(overlap_integral, bas, transform=T, tol_screen=float(tol))
            want = T @ got @ T.T
            sc = np.abs(T) @ np.abs(got) @ np.abs(T).T + 1e-3
            if not np.all(np.abs(gt - want) <= 1e-12 * sc):
                return v.fail(f"tol {tol:.3e}: screened overlap with transform is not T S_screened T^T "
                              f"(max dev {np.abs(gt - want).max():.3e}): tolerance not forwarded through this path?")
    return v


def shards(tier):
    k, n = (16, 40) if tier == "quick" else (64, 300)
    return [{"id": i, "n": n} for i in range(k)]


SUBCHECKS = [SubCheck("screening", judge, shards, strategy=lambda s: case_st())]
EXPECTED_CLASSES = ["screening/block-removed", "screening/block-kept", "screening/pair-at-cutoff", "screening/ss-bound-checked"]
