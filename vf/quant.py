"""Registry of the library's public quantities with a uniform calling convention.

Used by the relation properties (C09, C11, C12, C13) and the purity state machine (C19).
A quantity is either *indexed* (its output carries basis indices on `axes`) or *density-type* (it takes a
density matrix over the basis functions and returns point-wise fields).
"""
import numpy as np

from vf.core import use_repo, present_points

use_repo()
from gbasis.evals import density as gd  # noqa: E402
from gbasis.evals import stress_tensor as gs  # noqa: E402
from gbasis.evals.electrostatic_potential import electrostatic_potential  # noqa: E402
from gbasis.evals.eval import evaluate_basis  # noqa: E402
from gbasis.evals.eval_deriv import evaluate_deriv_basis  # noqa: E402
from gbasis.integrals.angular_momentum import angular_momentum_integral  # noqa: E402
from gbasis.integrals.electron_repulsion import electron_repulsion_integral  # noqa: E402
from gbasis.integrals.kinetic_energy import kinetic_energy_integral  # noqa: E402
from gbasis.integrals.moment import moment_integral  # noqa: E402
from gbasis.integrals.momentum import momentum_integral  # noqa: E402
from gbasis.integrals.nuclear_electron_attraction import nuclear_electron_attraction_integral  # noqa: E402
from gbasis.integrals.overlap import overlap_integral  # noqa: E402
from gbasis.integrals.point_charge import point_charge_integral  # noqa: E402


class Q:
    def __init__(self, name, fn, axes=None, density=False, tol=1e-9, eri=False, needs=(), order=0):
        self.order = order  # density-type: highest total derivative order entering the field (None: ESP)
        # Coulomb-type integrals are only claimed to 1e-8 / 1e-6 of their Cauchy-Schwarz scale (C03, C04): two evaluations
        # of the same element can differ by that much of the NATURAL magnitude, not of the element itself
        self.floor = 1.0 if (eri or "point_charge" in name or "nuclear" in name) else 1e-3
        self.name = self.__name__ = name
        self.fn = fn  # (basis, env, transform) -> ndarray ; density-type: (basis, gamma, env, transform)
        self.axes = axes
        self.density = density
        self.tol = tol
        self.eri = eri
        self.needs = needs

    def __call__(self, basis, env, transform=None, gamma=None):
        if self.density:
            return self.fn(basis, env["gamma"] if gamma is None else gamma, env, transform)
        return self.fn(basis, env, transform)


def _pts(env):
    """The evaluation points in the array form the environment asks for (see core.present_points); default: float64 array."""
    if env.get("points_form") is None:
        return _a(env, "points")
    return present_points(env["points"], env["points_form"])[0]


def _pts64(env):
    """As _pts, for functions that document `dtype` int/float for their points (electrostatic potential): a float32 grid is
    handed over as the float64 array of the same values."""
    x = _pts(env)
    return x.astype(float) if x.dtype == np.float32 else x


def with_point_form(env, selector):
    """Environment whose points are handed to the library in the array form `selector` (layout / integer grid / float32 grid);
    the stored coordinates become the values that form denotes.  An integer grid is not used when it would put a point within
    1e-3 bohr of a nucleus (the electrostatic potential is singular there)."""
    _, vals, form = present_points(env["points"], selector)
    if form == "integer-dtype":
        nuc = np.array(env.get("nuc_coords", []), dtype=float).reshape(-1, 3)
        if nuc.size and np.min(np.linalg.norm(vals[:, None, :] - nuc[None, :, :], axis=2)) < 1e-3:
            return env, "c-float64"
    return dict(env, points=vals.tolist(), points_form=int(selector)), form


def with_screen_band(env, shells, selector):
    """Half of the time replace the screening tolerance of the environment by the one whose documented cutoff
    sqrt(-(a+b)/(ab) ln tol) (a, b: smallest exponents) lies 3 % or 10 % inside / outside the distance of a pair of shells on
    different centres: relations over the screened overlap are then about blocks that are actually on the edge of being dropped."""
    import math

    selector = int(selector)
    pairs = [(i, j) for i in range(len(shells)) for j in range(i + 1, len(shells)) if shells[i]["coord"] != shells[j]["coord"]]
    if not pairs or selector % 2:
        return env
    i, j = pairs[(selector // 2) % len(pairs)]
    a, b = min(shells[i]["exps"]), min(shells[j]["exps"])
    d = math.dist(shells[i]["coord"], shells[j]["coord"])
    f = (0.9, 1.1, 0.97, 1.03)[(selector // 64) % 4]
    lt = -(a * b / (a + b)) * (d * f) ** 2
    if not math.log(1e-16) < lt < math.log(0.5):
        return env
    return dict(env, tol_screen=math.exp(lt), tol_screen_band="pair-%d-%d-x%.2f" % (i, j, f))


def _a(env, key, dtype=float):
    """Array view of an environment entry; an ndarray of the right dtype is passed through as the same object (C19 relies on
    the library receiving the pooled objects themselves)."""
    x = env[key]
    if isinstance(x, np.ndarray) and x.dtype == np.dtype(dtype):
        return x
    return np.array(x, dtype=dtype)


INDEXED = [
    Q("evaluate_basis", lambda b, e, t: evaluate_basis(b, _pts(e), transform=t), axes=(0,)),
    Q("evaluate_deriv_basis", lambda b, e, t: evaluate_deriv_basis(b, _pts(e), _a(e, "deriv_order", int), transform=t),
      axes=(0,)),
    Q("evaluate_deriv_basis[direct]", lambda b, e, t: evaluate_deriv_basis(
        b, _pts(e), np.minimum(_a(e, "deriv_order", int), 2), transform=t, deriv_type="direct"), axes=(0,)),
    Q("overlap_integral", lambda b, e, t: overlap_integral(b, transform=t), axes=(0, 1)),
    Q("overlap_integral[tol_screen]", lambda b, e, t: overlap_integral(b, transform=t, tol_screen=e.get("tol_screen", 1e-6)), axes=(0, 1)),
    Q("kinetic_energy_integral", lambda b, e, t: kinetic_energy_integral(b, transform=t), axes=(0, 1)),
    Q("momentum_integral", lambda b, e, t: momentum_integral(b, transform=t), axes=(0, 1)),
    Q("angular_momentum_integral", lambda b, e, t: angular_momentum_integral(b, transform=t), axes=(0, 1)),
    Q("moment_integral", lambda b, e, t: moment_integral(b, _a(e, "origin"), _a(e, "orders", int).reshape(-1, 3), transform=t),
      axes=(0, 1)),
    Q("point_charge_integral", lambda b, e, t: point_charge_integral(b, _a(e, "nuc_coords").reshape(-1, 3), _a(e, "nuc_charges"),
                                                                     transform=t), axes=(0, 1), tol=1e-8),
    Q("nuclear_electron_attraction_integral", lambda b, e, t: nuclear_electron_attraction_integral(
        b, _a(e, "nuc_coords").reshape(-1, 3), _a(e, "nuc_charges"), transform=t), axes=(0, 1), tol=1e-8),
]
ERI = [
    Q("electron_repulsion_integral[chemist]", lambda b, e, t: electron_repulsion_integral(b, transform=t, notation="chemist"),
      axes=(0, 1, 2, 3), tol=2e-6, eri=True),
    Q("electron_repulsion_integral[physicist]", lambda b, e, t: electron_repulsion_integral(b, transform=t, notation="physicist"),
      axes=(0, 1, 2, 3), tol=2e-6, eri=True),
]
_BIG = 1e300  # threshold that never raises: relations are about values, the threshold rule is C06's
DENSITY = [
    Q("evaluate_density", lambda b, g, e, t: gd.evaluate_density(g, b, _pts(e), transform=t, threshold=_BIG), density=True, order=0),
    Q("evaluate_deriv_density", lambda b, g, e, t: gd.evaluate_deriv_density(_a(e, "deriv_order", int), g, b, _pts(e),
                                                                             transform=t), density=True, order="deriv_order"),
    Q("evaluate_density_gradient", lambda b, g, e, t: gd.evaluate_density_gradient(g, b, _pts(e), transform=t), density=True, order=1),
    Q("evaluate_density_laplacian", lambda b, g, e, t: gd.evaluate_density_laplacian(g, b, _pts(e), transform=t), density=True, order=2),
    Q("evaluate_density_hessian", lambda b, g, e, t: gd.evaluate_density_hessian(g, b, _pts(e), transform=t), density=True, order=2),
    Q("evaluate_posdef_kinetic_energy_density", lambda b, g, e, t: gd.evaluate_posdef_kinetic_energy_density(
        g, b, _pts(e), transform=t, threshold=_BIG), density=True, order=2),
    Q("electrostatic_potential", lambda b, g, e, t: electrostatic_potential(
        b, g, _pts64(e), _a(e, "nuc_coords").reshape(-1, 3), _a(e, "nuc_charges"), transform=t), density=True, tol=1e-8, order=None),
    Q("evaluate_stress_tensor", lambda b, g, e, t: gs.evaluate_stress_tensor(g, b, _pts(e), alpha=e["alpha"], beta=e["beta"],
                                                                            transform=t), density=True, order=2),
    Q("evaluate_ehrenfest_force", lambda b, g, e, t: gs.evaluate_ehrenfest_force(g, b, _pts(e), alpha=e["alpha"],
                                                                                beta=e["beta"], transform=t), density=True, order=3),
    Q("evaluate_ehrenfest_hessian", lambda b, g, e, t: gs.evaluate_ehrenfest_hessian(g, b, _pts(e), alpha=e["alpha"],
                                                                                    beta=e["beta"], transform=t), density=True, order=4),
]
ALL = INDEXED + ERI + DENSITY
BYNAME = {q.name: q for q in ALL}


def apply_axes(arr, mats, axes):
    """Apply mats[i] (rows = new index) on axis axes[i] of arr."""
    out = arr
    for m, ax in zip(mats, axes):
        out = np.moveaxis(np.tensordot(m, out, (1, ax)), 0, ax)
    return out


def per_function_scales(basis, env):
    """Library-derived per-function magnitudes: t = sqrt(2 T_aa), extent about the moment origin and the coordinate origin."""
    from vf.core import lib

    t = np.sqrt(2 * np.abs(np.diag(lib(kinetic_energy_integral, basis))))
    sec = np.array([[2, 0, 0], [0, 2, 0], [0, 0, 2]])
    ro = np.sqrt(np.abs(np.einsum("aak->a", lib(moment_integral, basis, _a(env, "origin"), sec))))
    r0 = np.sqrt(np.abs(np.einsum("aak->a", lib(moment_integral, basis, np.zeros(3), sec))))
    return t, ro, r0


def natural_scale(q, base, pf):
    """Natural magnitude of each element of an indexed quantity (an absolute floor for relation checks, so that elements
    and whole arrays that vanish by symmetry are compared at rounding level rather than relative to their own noise)."""
    t, ro, r0 = pf
    name = q.name
    if name.startswith("overlap_integral"):
        return np.ones_like(base, dtype=float)
    if name == "kinetic_energy_integral":
        return 0.5 * t[:, None] * t[None, :]
    if name == "momentum_integral":
        return np.sqrt(t[:, None] * t[None, :])[:, :, None] * np.ones(3)
    if name == "angular_momentum_integral":
        return (np.sqrt(t[:, None] * t[None, :]) * (1 + r0)[:, None] * (1 + r0)[None, :])[:, :, None] * np.ones(3)
    if name == "moment_integral":
        return np.ones(base.shape[:2])[:, :, None] * 0 + (1 + ro[:, None] + ro[None, :])[:, :, None] ** q.env_orders[None, None, :]
    if name in ("point_charge_integral",):
        dg = np.sqrt(np.abs(np.einsum("aan->an", base)))
        return dg[:, None, :] * dg[None, :, :]
    if name == "nuclear_electron_attraction_integral":
        dg = np.sqrt(np.abs(np.diag(base))) + 1e-300
        return dg[:, None] * dg[None, :] + np.abs(base).max()
    if q.eri:
        c = base if "chemist" in name else np.transpose(base, (0, 2, 1, 3))
        dg = np.sqrt(np.abs(np.einsum("abab->ab", c)))
        nat = dg[:, :, None, None] * dg[None, None, :, :]
        return nat if "chemist" in name else np.transpose(nat, (0, 2, 1, 3))
    # one-index evaluations: the largest value the function takes on the sampled points
    return np.abs(base).max(axis=1, keepdims=True) * np.ones_like(base)


def relation_dev(got, base, mats, axes, floor=1e-3, nat=None):
    """Deviation of `got` from `base` with mats applied on axes, relative to |mats| (|base| + floor*nat) |mats|.

    nat: natural magnitude per element (natural_scale); without it the largest |base| element is used."""
    try:
        want = apply_axes(base, mats, axes)
        if nat is None:
            nat = np.abs(base).max() if base.size else 0.0
        scale = apply_axes(np.abs(base) + floor * nat, [np.abs(m) for m in mats], axes) + 1e-300
    except ValueError:  # the library returned an array whose basis axes do not have the size of the basis
        return float("inf"), None
    if got.shape != want.shape:
        return float("inf"), None
    if got.size == 0:
        return 0.0, None
    with np.errstate(invalid="ignore"):
        d = np.abs(got - want) / scale
    d = np.where(got == want, 0.0, np.where(np.isnan(d), np.inf, d))
    i = np.unravel_index(int(np.argmax(d)), d.shape)
    return float(d[i]), tuple(int(x) for x in i)


class Scales:
    """Per-case cache of the natural magnitudes (indexed and density-type)."""

    def __init__(self, basis, env, shells=None):
        self.basis, self.env = basis, env
        self.shells = shells  # plain-data shells (default conventions): enables the R5 neighbourhood magnitude
        self._pf = None
        self._phi = {}

    def neighbourhood(self, order):
        """Magnitude of each function (or derivative) in the neighbourhood of each point: the R5 sum of |terms| with
        |x - X| replaced by |x - X| + 1/sqrt(alpha); never vanishes by symmetry."""
        from vf.ref import r3, r5

        return r5.eval_basis(r3.refs(self.shells), _a(self.env, "points"), order)[2]

    def nat(self, q, base):
        if self._pf is None:
            self._pf = per_function_scales(self.basis, self.env)
        try:
            return self._nat(q, base) * (q.floor / 1e-3)
        except (ValueError, IndexError):  # malformed library output: fall back to the largest element
            return None

    def _nat(self, q, base):
        if q.name == "nuclear_electron_attraction_integral":
            # sum over the charges of the per-charge Cauchy-Schwarz scales (charges of opposite sign on one site cancel in the
            # matrix itself, not in the rounding of its terms)
            from vf.core import lib

            pc = lib(point_charge_integral, self.basis, _a(self.env, "nuc_coords").reshape(-1, 3), _a(self.env, "nuc_charges"))
            dg = np.sqrt(np.abs(np.einsum("aan->an", pc)))
            return np.einsum("an,bn->ab", dg, dg)
        if q.name == "moment_integral":
            q.env_orders = np.array(self.env["orders"], dtype=int).reshape(-1, 3).sum(axis=1)
        if q.axes == (0,):
            # function values / derivatives: summed magnitude of all derivatives up to one order higher (a value that
            # vanishes by symmetry at a sampled point is then still compared at the rounding level of its terms)
            n = 0 if q.name == "evaluate_basis" else int(sum(self.env["deriv_order"]))
            if self.shells is not None:
                o = (0, 0, 0) if q.name == "evaluate_basis" else [int(x) for x in self.env["deriv_order"]]
                if "direct" in q.name:
                    o = [min(x, 2) for x in o]
                return self.neighbourhood(o)
            return self._cum_phi(n + 1, None)
        return natural_scale(q, base, self._pf)

    def _cum_phi(self, n, transform):
        """sum over |p| <= n of |d^p phi| (library values), cached cumulatively."""
        key = None if transform is None else transform.tobytes()
        cache = self._phi.setdefault(key, {})
        pts = _a(self.env, "points")
        for tot in range(n + 1):
            if tot not in cache:
                acc = cache[tot - 1].copy() if tot > 0 else 0.0
                for a in range(tot + 1):
                    for b in range(tot + 1 - a):
                        o = np.array([a, b, tot - a - b])
                        if self.shells is not None:  # neighbourhood magnitude (robust against zeros by symmetry)
                            val = self.neighbourhood(o)
                            val = val if transform is None else np.abs(transform) @ val
                        else:
                            from vf.core import lib

                            val = np.abs(lib(evaluate_deriv_basis, self.basis, pts, o, transform=transform))
                        acc = acc + val
                cache[tot] = acc
        return cache[n]

    def mag(self, q, gamma, transform=None):
        """Magnitude a density-type field can reach at each point: sum_ab |gamma_ab| Phi_a Phi_b."""
        pts = _a(self.env, "points")
        if q.order is None:  # electrostatic potential: the nuclear term
            nc = _a(self.env, "nuc_coords").reshape(-1, 3)
            d = np.sqrt(((pts[:, None, :] - nc[None, :, :]) ** 2).sum(-1))
            return (np.abs(_a(self.env, "nuc_charges"))[None, :] / np.maximum(d, 1e-3)).sum(axis=1)
        n = int(sum(self.env["deriv_order"])) if q.order == "deriv_order" else int(q.order)
        phi = self._cum_phi(n, transform)
        return np.einsum("an,ab,bn->n", phi, np.abs(gamma), phi)


def natural_mag(q, basis, env, gamma, transform=None):
    return Scales(basis, env).mag(q, gamma, transform)


def same_dev(got, want, floor=1e-3, mag=None):
    """Deviation between two evaluations of the same field, relative to |want| + floor*max|want| (+ 1e-4*mag, an
    absolute natural magnitude with the points on axis 0)."""
    if got.shape != want.shape:
        return float("inf"), None
    if got.size == 0:
        return 0.0, None
    scale = np.abs(want) + floor * np.abs(want).max() + 1e-300
    if mag is not None:
        mag = np.asarray(mag, dtype=float)
        scale = scale + 1e-4 * mag.reshape(mag.shape + (1,) * (want.ndim - mag.ndim))
    with np.errstate(invalid="ignore"):
        d = np.abs(got - want) / scale
    d = np.where(got == want, 0.0, np.where(np.isnan(d), np.inf, d))
    i = np.unravel_index(int(np.argmax(d)), d.shape)
    return float(d[i]), tuple(int(x) for x in i)
