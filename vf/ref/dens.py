"""Density-type reference quantities from R5 values: D(p,q) = d_r^p d_r'^q gamma(r,r')|_{r=r'} and a tiny
operator algebra over these symbols (used by C06, C14-C16).  No import of gbasis."""
from math import comb

import numpy as np

from vf.ref import r5

E = [(1, 0, 0), (0, 1, 0), (0, 0, 1)]
ZERO = (0, 0, 0)


def add(p, q):
    return (p[0] + q[0], p[1] + q[1], p[2] + q[2])


class DensRef:
    def __init__(self, shells, points, gamma, transform=None):
        self.R = shells
        self.pts = np.asarray(points, dtype=float).reshape(-1, 3)
        self.g = np.asarray(gamma, dtype=float)
        self.T = None if transform is None else np.asarray(transform, dtype=float)
        self._phi = {}
        self._D = {}

    def phi(self, p):
        """values[f, N] and tolerance amplitude B[f, N] (sum|terms| + 1e-5 neighbourhood magnitude)."""
        p = tuple(int(x) for x in p)
        if p not in self._phi:
            val, ab, nb = r5.eval_basis(self.R, self.pts, p)
            B = ab + 1e-5 * nb
            if self.T is not None:
                val, B = self.T @ val, np.abs(self.T) @ B
            self._phi[p] = (val, B)
        return self._phi[p]

    def D(self, p, q):
        """(value[N], scale[N]) of sum_ab gamma_ab d^p phi_a d^q phi_b."""
        key = (tuple(p), tuple(q))
        if key not in self._D:
            vp, bp = self.phi(p)
            vq, bq = self.phi(q)
            val = np.einsum("an,ab,bn->n", vp, self.g, vq)
            sc = np.einsum("an,ab,bn->n", bp, np.abs(self.g), bq)
            self._D[key] = (val, sc)
        return self._D[key]

    def evaluate(self, expr):
        """expr: {(p, q): (coefficient, absolute weight)} -> (value[N], scale[N]).

        The absolute weight is the sum of |coefficients| with which the symbol entered the expression BEFORE like terms were
        merged: a symbol whose contributions cancel (net coefficient 0) still contributes its rounding to any evaluation of
        the defining expression, so it must contribute to the scale."""
        val = np.zeros(len(self.pts))
        sc = np.zeros(len(self.pts))
        for (p, q), (c, a) in expr.items():
            if c == 0 and a == 0:
                continue
            v, s = self.D(p, q)
            val = val + c * v
            sc = sc + a * s
        return val, sc


# ----- expressions in the symbols D(p,q) -------------------------------------------------------
def sym(p, q, c=1.0):
    return {(tuple(p), tuple(q)): (c, abs(c))}


def _acc(out, k, c, a):
    c0, a0 = out.get(k, (0.0, 0.0))
    out[k] = (c0 + c, a0 + a)


def lin(*terms):
    """lin((c1, expr1), (c2, expr2), ...)"""
    out = {}
    for c, e in terms:
        for k, (v, a) in e.items():
            _acc(out, k, c * v, abs(c) * a)
    return out


def ddr(expr, i):
    """Total derivative along axis i at r = r': (d_i + d'_i) D(p,q) = D(p+e_i,q) + D(p,q+e_i)."""
    out = {}
    for (p, q), (c, a) in expr.items():
        for k in ((add(p, E[i]), q), (p, add(q, E[i]))):
            _acc(out, k, c, a)
    return out


def rho():
    return sym(ZERO, ZERO)


def rho_deriv(order):
    """Full Leibniz triple sum for d^order rho (no symmetry shortcut)."""
    out = {}
    L = [int(x) for x in order]
    for a in range(L[0] + 1):
        for b in range(L[1] + 1):
            for c in range(L[2] + 1):
                k = ((a, b, c), (L[0] - a, L[1] - b, L[2] - c))
                w = comb(L[0], a) * comb(L[1], b) * comb(L[2], c)
                _acc(out, k, float(w), float(w))
    return out


def laplacian():
    return lin(*[(1.0, ddr(ddr(rho(), i), i)) for i in range(3)])


def posdef_ked():
    return lin(*[(0.5, sym(E[i], E[i])) for i in range(3)])


def stress(i, j, alpha, beta):
    """Documented (symmetrised) definition of the stress tensor."""
    e = lin(
        (-0.5 * alpha, sym(E[i], E[j])), (-0.5 * alpha, sym(E[j], E[i])),
        (0.5 * (1 - alpha), sym(add(E[i], E[j]), ZERO)), (0.5 * (1 - alpha), sym(ZERO, add(E[i], E[j]))),
    )
    if i == j:
        e = lin((1.0, e), (-0.5 * beta, laplacian()))
    return e


def force(j, alpha, beta):
    """F_j = - sum_i d/dr_i sigma_ij (derived mechanically)."""
    return lin(*[(-1.0, ddr(stress(i, j, alpha, beta), i)) for i in range(3)])


def ehrenfest_hessian(j, k, alpha, beta):
    """Jacobian d F_j / d r_k (the documented expanded formula)."""
    return ddr(force(j, alpha, beta), k)
