"""R1 - one-dimensional Gaussian-product integrals by binomial expansion about the product centre.

I(i,j,k) = int (x-A)^i (x-B)^j (x-C)^k exp(-a (x-A)^2 - b (x-B)^2) dx

Shift to t = x - P, P = (aA + bB)/(a+b); multiply out the three binomials as coefficient arrays;
integrate term-wise with int t^(2n) exp(-p t^2) dt = (2n-1)!!/(2p)^n sqrt(pi/p); multiply by
exp(-ab/(a+b) (A-B)^2).  No recursion in (i,j,k) is used (gbasis: Obara-Saika recursion).

Two instantiations: numpy float64 vectorised over primitive pairs (`table1d`) and a scalar version
generic in the number type (`int1d`, used with mpmath as arbiter).  No import of gbasis.
"""
import numpy as np

# Conditioning mode (set through r3.conditioning()): every sum over terms of mixed sign is replaced by the sum of their magnitudes.
# The result bounds, up to a modest factor, the rounding error of any evaluation that adds up these terms (and is the natural
# scale of an element when the terms cancel, e.g. by symmetry).
ABS = False


def _mul_linear(poly, c):
    """(poly in t, coefficients on the last axis) * (t + c)."""
    new = np.zeros(poly.shape[:-1] + (poly.shape[-1] + 1,))
    new[..., 1:] += poly
    new[..., :-1] += c[..., None] * poly
    return new


def _gauss_moments(p, nmax):
    """int t^n exp(-p t^2) dt for n = 0..nmax (zero for odd n); shape p.shape + (nmax+1,)."""
    out = np.zeros(p.shape + (nmax + 1,))
    out[..., 0] = np.sqrt(np.pi / p)
    for n in range(2, nmax + 1, 2):
        out[..., n] = out[..., n - 2] * (n - 1) / (2 * p)
    return out


def table1d(alpha, A, beta, B, imax, jmax, C=0.0, kmax=0):
    """T[i, j, k, ka, kb] for all i<=imax, j<=jmax, k<=kmax and all primitive pairs."""
    alpha = np.asarray(alpha, dtype=float)[:, None]
    beta = np.asarray(beta, dtype=float)[None, :]
    p = alpha + beta
    P = (alpha * A + beta * B) / p
    pref = np.exp(-alpha * beta / p * (A - B) ** 2)
    mom = _gauss_moments(p, imax + jmax + kmax)
    out = np.zeros((imax + 1, jmax + 1, kmax + 1) + p.shape)
    dA, dB, dC = P - A, P - B, P - C
    if ABS:
        # the distances themselves carry the rounding of the coordinates they are formed from (1e-16 |coordinate|, seen from
        # a tolerance of 1e-10 x this scale as 1e-6 |coordinate|; 1e-5 leaves room for a few operations)
        delta = 1e-5 * (abs(A) + abs(B) + abs(C))
        dA, dB, dC = np.abs(dA) + delta, np.abs(dB) + delta, np.abs(dC) + delta
    pi = np.ones(p.shape + (1,))
    for i in range(imax + 1):
        pij = pi
        for j in range(jmax + 1):
            pijk = pij
            for k in range(kmax + 1):
                n = pijk.shape[-1]
                out[i, j, k] = np.sum(np.abs(pijk * mom[..., :n]) if ABS else pijk * mom[..., :n], axis=-1) * pref
                if k < kmax:
                    pijk = _mul_linear(pijk, dC)
            if j < jmax:
                pij = _mul_linear(pij, dB)
        if i < imax:
            pi = _mul_linear(pi, dA)
    return out


def ket_deriv_poly(beta, j, n):
    """Coefficients q[kb, m] with d^n/dx^n [(x-B)^j e^{-b(x-B)^2}] = sum_m q[m] (x-B)^m e^{...}."""
    beta = np.asarray(beta, dtype=float)
    q = np.zeros((beta.size, j + n + 1))
    q[:, j] = 1.0
    for _ in range(n):
        new = np.zeros_like(q)
        m = np.arange(1, q.shape[1])
        new[:, :-1] += q[:, 1:] * m[None, :]
        new[:, 1:] += -2.0 * beta[:, None] * q[:, :-1]
        q = new
    return q


def deriv_table(T, beta, jmax, n, k=0):
    """D[i, j, ka, kb] = <(x-A)^i | (x-C)^k d^n/dx^n | (x-B)^j> from a table T with j up to jmax+n."""
    imax = T.shape[0] - 1
    out = np.zeros((imax + 1, jmax + 1) + T.shape[3:])
    for j in range(jmax + 1):
        q = ket_deriv_poly(beta, j, n)  # (Kb, j+n+1)
        if ABS:
            q = np.abs(q)
        # sum_m q[kb,m] T[i,m,k,ka,kb]
        out[:, j] = np.einsum("bm,imab->iab", q, T[:, : j + n + 1, k])
    return out


# -------------------------------------------------------------------------------------------
# scalar, generic in the number type (float or mpmath.mpf)
# -------------------------------------------------------------------------------------------
def int1d(ctx, a, A, b, B, i, j, C=0, k=0):
    """Scalar I(i,j,k).  ctx provides sqrt, exp, pi (e.g. the mpmath module or `FloatCtx`)."""
    p = a + b
    P = (a * A + b * B) / p
    poly = [ctx.mpf(1)]
    for c, n in ((P - A, i), (P - B, j), (P - C, k)):
        for _ in range(n):
            new = [ctx.mpf(0)] * (len(poly) + 1)
            for d, v in enumerate(poly):
                new[d + 1] += v
                new[d] += c * v
            poly = new
    total = ctx.mpf(0)
    mom = ctx.sqrt(ctx.pi / p)
    for n in range(0, len(poly), 2):
        total += poly[n] * mom
        mom = mom * (n + 1) / (2 * p)
    return total * ctx.exp(-a * b / p * (A - B) ** 2)


def ket_deriv_poly_scalar(ctx, b, j, n):
    q = {j: ctx.mpf(1)}
    for _ in range(n):
        new = {}
        for m, v in q.items():
            if m >= 1:
                new[m - 1] = new.get(m - 1, 0) + m * v
            new[m + 1] = new.get(m + 1, 0) - 2 * b * v
        q = new
    return q


def dint1d(ctx, a, A, b, B, i, j, n, C=0, k=0):
    """Scalar <(x-A)^i | (x-C)^k d^n/dx^n | (x-B)^j>."""
    return sum(v * int1d(ctx, a, A, b, B, i, m, C, k) for m, v in ket_deriv_poly_scalar(ctx, b, j, n).items())


class FloatCtx:
    """float instantiation of the scalar code."""

    pi = np.pi

    @staticmethod
    def mpf(x):
        return float(x)

    @staticmethod
    def sqrt(x):
        return float(np.sqrt(x))

    @staticmethod
    def exp(x):
        return float(np.exp(x))
