"""R2 - Coulomb integrals by the McMurchie-Davidson scheme (no import of gbasis).

Hermite expansion coefficients E_t^{ij} (two-term recursion), Hermite Coulomb integrals R_tuv from
the Boys function, then
  nuclear attraction  (2 pi / p) sum_tuv E_t E_u E_v R_tuv(p, P - C)
  repulsion           2 pi^(5/2) / (p q sqrt(p+q)) sum E^{ab}_{tuv} (-1)^{tau+nu+phi} E^{cd}_{tau nu phi}
                      R_{t+tau,u+nu,v+phi}(pq/(p+q), P - Q)
gbasis uses Obara-Saika vertical recursion + electron transfer + horizontal recursion and the Boys
function through hyp1f1; MD has no electron-transfer step and no bra/ket asymmetry.  The Boys function
here: positive-term series at the top order + downward recursion (T <= 35), erf + upward recursion
(T > 35).  Two instantiations: numpy float64 (vectorised over primitives) and scalar code generic in the
number type (mpmath arbiter).
"""
import numpy as np
from scipy.special import erf

from vf.ref import r3  # noqa: F401  (ShellRef objects are the inputs)


# ------------------------------------------------------------------------------------------------
# float64, vectorised
# ------------------------------------------------------------------------------------------------
def boys(nmax, T):
    """F_n(T), n = 0..nmax, for an array T >= 0.  Returns shape (nmax+1,) + T.shape."""
    T = np.asarray(T, dtype=float)
    out = np.zeros((nmax + 1,) + T.shape)
    small = T <= 35.0
    if small.any():
        t = T[small]
        # F_nmax by the all-positive series  e^-T sum_k (2T)^k / ((2n+1)(2n+3)...(2n+2k+1))
        term = np.ones_like(t) / (2 * nmax + 1)
        s = term.copy()
        for k in range(1, 200):
            term = term * (2 * t) / (2 * nmax + 2 * k + 1)
            s += term
            if np.all(term <= 1e-18 * s):
                break
        e = np.exp(-t)
        f = s * e
        out[(nmax,) + (small,)] = f
        for n in range(nmax - 1, -1, -1):
            f = (2 * t * f + e) / (2 * n + 1)
            out[(n,) + (small,)] = f
    big = ~small
    if big.any():
        t = T[big]
        e = np.exp(-t)
        f = 0.5 * np.sqrt(np.pi / t) * erf(np.sqrt(t))
        out[(0,) + (big,)] = f
        for n in range(nmax):
            f = ((2 * n + 1) * f - e) / (2 * t)
            out[(n + 1,) + (big,)] = f
    return out


def e_table(alpha, A, beta, B, imax, jmax):
    """E[i, j, t, ka, kb] Hermite expansion coefficients on one axis (t <= i + j)."""
    alpha = np.asarray(alpha, dtype=float)[:, None]
    beta = np.asarray(beta, dtype=float)[None, :]
    p = alpha + beta
    P = (alpha * A + beta * B) / p
    PA, PB = P - A, P - B
    E = np.zeros((imax + 1, jmax + 1, imax + jmax + 2) + p.shape)
    E[0, 0, 0] = np.exp(-alpha * beta / p * (A - B) ** 2)
    for i in range(imax + 1):
        for j in range(jmax + 1):
            if i == 0 and j == 0:
                continue
            for t in range(i + j + 1):
                if j == 0:  # raise i
                    v = PA * E[i - 1, j, t] + (t + 1) * E[i - 1, j, t + 1]
                    if t > 0:
                        v = v + E[i - 1, j, t - 1] / (2 * p)
                else:  # raise j
                    v = PB * E[i, j - 1, t] + (t + 1) * E[i, j - 1, t + 1]
                    if t > 0:
                        v = v + E[i, j - 1, t - 1] / (2 * p)
                E[i, j, t] = v
    return E[:, :, : imax + jmax + 1]


def r_table(L, alpha, D):
    """R[t, u, v, ...] Hermite Coulomb integrals for t+u+v <= L; alpha (...,), D (..., 3)."""
    alpha = np.asarray(alpha, dtype=float)
    T = alpha * np.sum(D * D, axis=-1)
    F = boys(L, T)
    R = np.zeros((L + 2, L + 1, L + 1, L + 1) + alpha.shape)
    for n in range(L + 1):
        R[n, 0, 0, 0] = (-2 * alpha) ** n * F[n]
    X, Y, Z = D[..., 0], D[..., 1], D[..., 2]
    for v in range(L):
        R[:-1, 0, 0, v + 1] = Z * R[1:, 0, 0, v] + (v * R[1:, 0, 0, v - 1] if v > 0 else 0)
    for u in range(L):
        R[:-1, 0, u + 1, :] = Y[None, None] * R[1:, 0, u, :] + (u * R[1:, 0, u - 1, :] if u > 0 else 0)
    for t in range(L):
        R[:-1, t + 1, :, :] = X[None, None, None] * R[1:, t, :, :] + (t * R[1:, t - 1, :, :] if t > 0 else 0)
    return R[0]


def _pair(sa, sb):
    """E product tables for a shell pair: Eab[ca, cb, t, u, v, ka, kb], p[ka,kb], P[ka,kb,3]."""
    Ex, Ey, Ez = (e_table(sa.exps, sa.A[ax], sb.exps, sb.A[ax], sa.l, sb.l) for ax in range(3))
    ax, bx = sa.comps, sb.comps
    ex = Ex[ax[:, 0][:, None], bx[:, 0][None, :]]  # [ca, cb, t, ka, kb]
    ey = Ey[ax[:, 1][:, None], bx[:, 1][None, :]]
    ez = Ez[ax[:, 2][:, None], bx[:, 2][None, :]]
    Eab = np.einsum("abtkl,abukl,abvkl->abtuvkl", ex, ey, ez)
    a = sa.exps[:, None]
    b = sb.exps[None, :]
    p = a + b
    P = (a[..., None] * sa.A[None, None, :] + b[..., None] * sb.A[None, None, :]) / p[..., None]
    return Eab, p, P


def point_charge_block(sa, sb, coords, charges, normalised=True):
    """[ma, ca, mb, cb, n] = <a| -q_n / |r - C_n| |b>."""
    coords = np.asarray(coords, dtype=float).reshape(-1, 3)
    charges = np.asarray(charges, dtype=float)
    Eab, p, P = _pair(sa, sb)
    L = sa.l + sb.l
    D = P[:, :, None, :] - coords[None, None, :, :]  # (ka, kb, n, 3)
    R = r_table(L, np.broadcast_to(p[:, :, None], D.shape[:-1]), D)  # [t,u,v,ka,kb,n]
    prim = np.einsum("abtuvkl,tuvkln->abkln", Eab, R) * (2 * np.pi / p)[None, None, :, :, None]
    blk = r3._contract(prim, sa, sb) * (-charges)
    return r3._norm(blk, sa, sb) if normalised else blk


def eri_block(sa, sb, sc, sd, normalised=True):
    """[ma, ca, mb, cb, mc, cc, md, cd] = (a b | c d) in chemists' notation."""
    Eab, p, P = _pair(sa, sb)
    Ecd, q, Q = _pair(sc, sd)
    Lb, Lk = sa.l + sb.l, sc.l + sd.l
    L = Lb + Lk
    nab, ncd = sa.L * sb.L, sc.L * sd.L
    kab, kcd = sa.K * sb.K, sc.K * sd.K
    nb, nk = (Lb + 1) ** 3, (Lk + 1) ** 3
    Eab = Eab.reshape(nab, nb, kab)
    sign = np.array([(-1) ** (t + u + v) for t in range(Lk + 1) for u in range(Lk + 1) for v in range(Lk + 1)])
    Ecd = Ecd.reshape(ncd, nk, kcd) * sign[None, :, None]
    pf, qf = p.reshape(kab), q.reshape(kcd)
    Pf, Qf = P.reshape(kab, 3), Q.reshape(kcd, 3)
    alpha = pf[:, None] * qf[None, :] / (pf[:, None] + qf[None, :])
    D = Pf[:, None, :] - Qf[None, :, :]
    R = r_table(L, alpha, D)  # [t,u,v,kab,kcd]
    tb = np.array([(t, u, v) for t in range(Lb + 1) for u in range(Lb + 1) for v in range(Lb + 1)])
    tk = np.array([(t, u, v) for t in range(Lk + 1) for u in range(Lk + 1) for v in range(Lk + 1)])
    it = tb[:, None, :] + tk[None, :, :]  # (nb, nk, 3)
    pref = 2 * np.pi ** 2.5 / (pf[:, None] * qf[None, :] * np.sqrt(pf[:, None] + qf[None, :]))
    out = np.zeros((nab, ncd, kab, kcd))
    for i in range(kab):
        G = R[it[..., 0], it[..., 1], it[..., 2], i, :]  # (nb, nk, kcd)
        tmp = np.einsum("xt,tsk->xsk", Eab[:, :, i], G)
        out[:, :, i, :] = np.einsum("xsk,ysk->xyk", tmp, Ecd) * pref[i][None, None, :]
    out = out.reshape(sa.L, sb.L, sc.L, sd.L, sa.K, sb.K, sc.K, sd.K)
    out = out * (sa.pn[:, None, None, None, :, None, None, None] * sb.pn[None, :, None, None, None, :, None, None]
                 * sc.pn[None, None, :, None, None, None, :, None] * sd.pn[None, None, None, :, None, None, None, :])
    blk = np.einsum("abcdijkl,im,jn,ko,lp->manbocpd", out, sa.coeffs, sb.coeffs, sc.coeffs, sd.coeffs)
    if normalised:
        blk = (blk * sa.cn[:, :, None, None, None, None, None, None] * sb.cn[None, None, :, :, None, None, None, None]
               * sc.cn[None, None, None, None, :, :, None, None] * sd.cn[None, None, None, None, None, None, :, :])
    return blk


def flatten4(blk, shells):
    """[m,c]x4 -> four flat function indices after the spherical transforms."""
    for pos, s in enumerate(shells):
        if s.type == "spherical":
            blk = np.moveaxis(np.tensordot(s.T, blk, (1, 2 * pos + 1)), 0, 2 * pos + 1)
    sh = blk.shape
    return blk.reshape(sh[0] * sh[1], sh[2] * sh[3], sh[4] * sh[5], sh[6] * sh[7])


def eri_full(shells, unique=True):
    """Full (ab|cd) array in documented function order (each block computed independently)."""
    off = r3.offsets(shells)
    n = off[-1]
    out = np.zeros((n, n, n, n))
    ns = len(shells)
    for i in range(ns):
        for j in range(ns):
            for k in range(ns):
                for l in range(ns):
                    q = (shells[i], shells[j], shells[k], shells[l])
                    out[off[i]:off[i + 1], off[j]:off[j + 1], off[k]:off[k + 1], off[l]:off[l + 1]] = \
                        flatten4(eri_block(*q), q)
    return out


# ------------------------------------------------------------------------------------------------
# scalar, generic in the number type (mpmath arbiter)
# ------------------------------------------------------------------------------------------------
def boys_mp(ctx, n, T):
    if T == 0:
        return ctx.mpf(1) / (2 * n + 1)
    return ctx.gammainc(n + ctx.mpf(1) / 2, 0, T) / (2 * T ** (n + ctx.mpf(1) / 2))


def e_scalar(ctx, a, A, b, B, imax, jmax):
    p = a + b
    P = (a * A + b * B) / p
    PA, PB = P - A, P - B
    E = {(0, 0, 0): ctx.exp(-a * b / p * (A - B) ** 2)}

    def get(i, j, t):
        return E.get((i, j, t), 0)

    for i in range(imax + 1):
        for j in range(jmax + 1):
            if i == j == 0:
                continue
            for t in range(i + j + 1):
                if j == 0:
                    E[(i, j, t)] = get(i - 1, j, t - 1) / (2 * p) + PA * get(i - 1, j, t) + (t + 1) * get(i - 1, j, t + 1)
                else:
                    E[(i, j, t)] = get(i, j - 1, t - 1) / (2 * p) + PB * get(i, j - 1, t) + (t + 1) * get(i, j - 1, t + 1)
    return E


def r_scalar(ctx, L, alpha, D):
    T = alpha * (D[0] ** 2 + D[1] ** 2 + D[2] ** 2)
    R = {}
    for n in range(L + 1):
        R[(n, 0, 0, 0)] = (-2 * alpha) ** n * boys_mp(ctx, n, T)

    def get(n, t, u, v):
        if t < 0 or u < 0 or v < 0:
            return 0
        return R[(n, t, u, v)]

    for tot in range(1, L + 1):
        for t in range(tot + 1):
            for u in range(tot - t + 1):
                v = tot - t - u
                for n in range(L - tot + 1):
                    if t > 0:
                        R[(n, t, u, v)] = (t - 1) * get(n + 1, t - 2, u, v) + D[0] * get(n + 1, t - 1, u, v)
                    elif u > 0:
                        R[(n, t, u, v)] = (u - 1) * get(n + 1, t, u - 2, v) + D[1] * get(n + 1, t, u - 1, v)
                    else:
                        R[(n, t, u, v)] = (v - 1) * get(n + 1, t, u, v - 2) + D[2] * get(n + 1, t, u, v - 1)
    return R


def nuc_prim(ctx, a, A, la, b, B, lb, C):
    """int x^la e^{-a r_A^2} (1/|r-C|) x^lb e^{-b r_B^2} for one primitive pair and component pair."""
    p = a + b
    P = [(a * A[k] + b * B[k]) / p for k in range(3)]
    E = [e_scalar(ctx, a, A[k], b, B[k], la[k], lb[k]) for k in range(3)]
    L = sum(la) + sum(lb)
    R = r_scalar(ctx, L, p, [P[k] - C[k] for k in range(3)])
    tot = 0
    for t in range(la[0] + lb[0] + 1):
        for u in range(la[1] + lb[1] + 1):
            for v in range(la[2] + lb[2] + 1):
                tot += E[0][(la[0], lb[0], t)] * E[1][(la[1], lb[1], u)] * E[2][(la[2], lb[2], v)] * R[(0, t, u, v)]
    return 2 * ctx.pi / p * tot


def eri_prim(ctx, a, A, la, b, B, lb, c, C, lc, d, Dc, ld):
    """(ab|cd) for one primitive quartet and component quartet (un-normalised monomial Gaussians)."""
    p, q = a + b, c + d
    P = [(a * A[k] + b * B[k]) / p for k in range(3)]
    Q = [(c * C[k] + d * Dc[k]) / q for k in range(3)]
    E1 = [e_scalar(ctx, a, A[k], b, B[k], la[k], lb[k]) for k in range(3)]
    E2 = [e_scalar(ctx, c, C[k], d, Dc[k], lc[k], ld[k]) for k in range(3)]
    L = sum(la) + sum(lb) + sum(lc) + sum(ld)
    R = r_scalar(ctx, L, p * q / (p + q), [P[k] - Q[k] for k in range(3)])
    tot = 0
    for t in range(la[0] + lb[0] + 1):
        for u in range(la[1] + lb[1] + 1):
            for v in range(la[2] + lb[2] + 1):
                e1 = E1[0][(la[0], lb[0], t)] * E1[1][(la[1], lb[1], u)] * E1[2][(la[2], lb[2], v)]
                if e1 == 0:
                    continue
                for tt in range(lc[0] + ld[0] + 1):
                    for uu in range(lc[1] + ld[1] + 1):
                        for vv in range(lc[2] + ld[2] + 1):
                            e2 = E2[0][(lc[0], ld[0], tt)] * E2[1][(lc[1], ld[1], uu)] * E2[2][(lc[2], ld[2], vv)]
                            tot += e1 * (-1) ** (tt + uu + vv) * e2 * R[(0, t + tt, u + uu, v + vv)]
    return 2 * ctx.pi ** (ctx.mpf(5) / 2) / (p * q * ctx.sqrt(p + q)) * tot


def _mp_shell(ctx, s):
    return ([ctx.mpf(float(x)) for x in s.A], [ctx.mpf(float(x)) for x in s.exps])


def point_charge_element_mp(sa, ma, ca, sb, mb, cb, C, q, dps=40):
    """One normalised Cartesian element <a|-q/|r-C||b> at `dps` digits (arbiter)."""
    import mpmath as mp

    mp.mp.dps = dps
    A, ea = _mp_shell(mp, sa)
    B, eb = _mp_shell(mp, sb)
    Cm = [mp.mpf(float(x)) for x in C]
    tot = mp.mpf(0)
    for i in range(sa.K):
        for j in range(sb.K):
            w = sa.coeffs[i, ma] * sa.pn[ca, i] * sb.coeffs[j, mb] * sb.pn[cb, j]
            tot += w * nuc_prim(mp, ea[i], A, [int(x) for x in sa.comps[ca]], eb[j], B, [int(x) for x in sb.comps[cb]], Cm)
    return float(-q * tot * sa.cn[ma, ca] * sb.cn[mb, cb])


def eri_element_mp(shells, ms, cs, dps=40):
    """One normalised Cartesian element (ab|cd) at `dps` digits (arbiter)."""
    import itertools

    import mpmath as mp

    mp.mp.dps = dps
    geo = [_mp_shell(mp, s) for s in shells]
    comps = [[int(x) for x in s.comps[c]] for s, c in zip(shells, cs)]
    tot = mp.mpf(0)
    for ks in itertools.product(*[range(s.K) for s in shells]):
        w = 1.0
        for s, m, c, k in zip(shells, ms, cs, ks):
            w *= s.coeffs[k, m] * s.pn[c, k]
        args = []
        for (A, e), k, lc in zip(geo, ks, comps):
            args += [e[k], A, lc]
        tot += w * eri_prim(mp, *args)
    n = 1.0
    for s, m, c in zip(shells, ms, cs):
        n *= s.cn[m, c]
    return float(tot * n)


def selftest(results, ok):
    import mpmath as mp

    mp.mp.dps = 40
    rng = np.random.RandomState(7)
    # Boys function vs mpmath over 0 .. 1e9
    worst = 0.0
    for T in [0.0, 1e-12, 1e-3, 0.5, 3.0, 17.0, 34.9, 35.1, 80.0, 1e4, 1e9]:
        F = boys(14, np.array([T]))[:, 0]
        for n in range(15):
            w = float(boys_mp(mp, n, mp.mpf(T)))
            worst = max(worst, abs(F[n] - w) / w)
    ok("R2 Boys function n<=14, T in 0..1e9 vs mpmath", worst, 1e-12, results)
    # nuclear attraction vs Gaussian-transform representation 1/r = 2/sqrt(pi) int_0^inf exp(-u^2 r^2) du
    from vf.ref import r1

    worst = 0.0
    for _ in range(6):
        a, b = np.exp(rng.uniform(np.log(0.2), np.log(5), 2))
        A, B, C = rng.uniform(-1, 1, 3), rng.uniform(-1, 1, 3), rng.uniform(-1.5, 1.5, 3)
        la, lb = [int(x) for x in rng.randint(0, 3, 3)], [int(x) for x in rng.randint(0, 3, 3)]

        def inner(u):
            # three-Gaussian product integral: exp(-a rA^2 - b rB^2 - u^2 rC^2), separable, R1-type closed form
            tot = mp.mpf(1)
            for k in range(3):
                g = u * u
                p = a + b + g
                P = (a * A[k] + b * B[k] + g * C[k]) / p
                pref = mp.exp(-(a * A[k] ** 2 + b * B[k] ** 2 + g * C[k] ** 2) + p * P ** 2)
                poly = [mp.mpf(1)]
                for c0, n in ((P - A[k], la[k]), (P - B[k], lb[k])):
                    for _ in range(n):
                        new = [mp.mpf(0)] * (len(poly) + 1)
                        for d, vv in enumerate(poly):
                            new[d + 1] += vv
                            new[d] += c0 * vv
                        poly = new
                s, mom = mp.mpf(0), mp.sqrt(mp.pi / p)
                for n in range(0, len(poly), 2):
                    s += poly[n] * mom
                    mom = mom * (n + 1) / (2 * p)
                tot *= s * pref
            return tot
        want = 2 / mp.sqrt(mp.pi) * mp.quad(inner, [0, 1, 5, 30, mp.inf])
        got = nuc_prim(mp, mp.mpf(a), [mp.mpf(x) for x in A], la, mp.mpf(b), [mp.mpf(x) for x in B], lb, [mp.mpf(x) for x in C])
        worst = max(worst, abs(float(got - want)) / (abs(float(want)) + 1e-12))
    ok("R2 scalar nuclear attraction vs Gaussian-transform quadrature (6 random, l<=2 per axis)", worst, 1e-10, results)
    # vectorised float vs scalar mp: nuclear attraction and ERI
    d1 = {"l": 3, "coord": [0.1, -0.3, 0.2], "exps": [2.1, 0.35], "coeffs": [[0.6, -0.2], [0.5, 0.9]], "type": "cartesian"}
    d2 = {"l": 2, "coord": [-0.6, 0.4, 0.0], "exps": [0.9], "coeffs": [[1.0]], "type": "cartesian"}
    d3 = {"l": 1, "coord": [0.5, 0.5, -0.7], "exps": [1500.0, 3.0], "coeffs": [[0.3], [0.8]], "type": "cartesian"}
    d4 = {"l": 0, "coord": [0.5, 0.5, -0.7], "exps": [0.25], "coeffs": [[1.0]], "type": "cartesian"}
    s1, s2, s3, s4 = (r3.ShellRef(d) for d in (d1, d2, d3, d4))
    Cs = np.array([[0.1, -0.3, 0.2], [3.0, 1.0, -2.0], [40.0, 0.0, 0.0]])
    V = point_charge_block(s1, s2, Cs, np.array([1.0, -2.0, 3.0]))
    worst = 0.0
    for (ma, ca, mb, cb, n) in [(0, 0, 0, 0, 0), (1, 4, 0, 3, 1), (0, 9, 0, 5, 2), (1, 7, 0, 1, 0)]:
        w = point_charge_element_mp(s1, ma, ca, s2, mb, cb, Cs[n], [1.0, -2.0, 3.0][n])
        sc = 1.0
        worst = max(worst, abs(V[ma, ca, mb, cb, n] - w) / sc)
    ok("R2 float nuclear attraction vs mp scalar (f|d, charges on centre / near / far)", worst, 1e-12, results)
    G = eri_block(s1, s2, s3, s4)
    worst = 0.0
    for (ms, cs) in [((0, 0, 0, 0), (0, 0, 0, 0)), ((1, 0, 0, 0), (5, 2, 1, 0)), ((0, 0, 0, 0), (9, 5, 2, 0))]:
        w = eri_element_mp([s1, s2, s3, s4], ms, cs)
        worst = max(worst, abs(G[ms[0], cs[0], ms[1], cs[1], ms[2], cs[2], ms[3], cs[3]] - w))
    ok("R2 float ERI (fd|ps) incl. exponent 1500 vs mp scalar", worst, 1e-12, results)
    # closed (ss|ss)
    a, b, c, d = 0.7, 1.9, 0.4, 3.3
    sh = [r3.ShellRef({"l": 0, "coord": list(rng.uniform(-1, 1, 3)), "exps": [e], "coeffs": [[1.0]], "type": "cartesian"})
          for e in (a, b, c, d)]
    p, q = a + b, c + d
    P = (a * sh[0].A + b * sh[1].A) / p
    Q = (c * sh[2].A + d * sh[3].A) / q
    T = p * q / (p + q) * np.sum((P - Q) ** 2)
    f0 = 0.5 * np.sqrt(np.pi / T) * erf(np.sqrt(T))
    want = (2 * np.pi ** 2.5 / (p * q * np.sqrt(p + q)) * np.exp(-a * b / p * np.sum((sh[0].A - sh[1].A) ** 2))
            * np.exp(-c * d / q * np.sum((sh[2].A - sh[3].A) ** 2)) * f0
            * sh[0].pn[0, 0] * sh[1].pn[0, 0] * sh[2].pn[0, 0] * sh[3].pn[0, 0])
    got = eri_block(*sh)[0, 0, 0, 0, 0, 0, 0, 0]
    ok("R2 (ss|ss) vs closed formula", abs(got - want) / abs(want), 1e-13, results)
