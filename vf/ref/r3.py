"""R3 - the functions a basis *defines*, and reference one-/two-index arrays in documented layout.

phi_{shell, segment m, component c}(r) = Ncont[m,c] * sum_i d[i,m] N(alpha_i, c) (x-X)^ax (y-Y)^ay (z-Z)^az
                                          exp(-alpha_i |r-R|^2)
N(alpha, c) = (2 alpha/pi)^(3/4) (4 alpha)^(l/2) / sqrt((2ax-1)!! (2ay-1)!! (2az-1)!!)   (textbook)
Ncont such that the R1 self-overlap is one.  Spherical shells: rows of the R4 matrix applied to the
component axis.  Function order: shell, then segment, then component.   No import of gbasis.
"""
import numpy as np

from vf.ref import r1, r4


class ShellRef:
    def __init__(self, d, cart=None, labels=None, ctype=None):
        self.l = l = int(d["l"])
        self.A = np.array(d["coord"], dtype=float)
        self.exps = np.array(d["exps"], dtype=float)
        self.coeffs = np.array(d["coeffs"], dtype=float)
        if self.coeffs.ndim == 1:
            self.coeffs = self.coeffs[:, None]
        self.type = ctype or d.get("type", "cartesian")
        self.comps = np.array(r4.default_cart(l) if cart is None else cart, dtype=int).reshape(-1, 3)
        self.labels = list(r4.default_sph(l) if labels is None else labels)
        self.K, self.M = self.coeffs.shape
        self.L = len(self.comps)
        df = np.array([np.prod([r4.dfact(2 * a - 1) for a in c]) for c in self.comps], dtype=float)
        # primitive norms [c, k]
        self.pn = ((2 * self.exps[None, :] / np.pi) ** 0.75 * (4 * self.exps[None, :]) ** (l / 2.0)
                   / np.sqrt(df)[:, None])
        self._T = None
        # contraction norms [m, c] from the R1 self-overlap
        s = overlap_block(self, self, normalised=False)
        self.cn = np.einsum("mcmc->mc", s) ** -0.5

    @property
    def T(self):
        if self._T is None:
            self._T = r4.c2s_matrix(self.l, [tuple(c) for c in self.comps], self.labels)
        return self._T

    @property
    def nfun(self):
        return self.M * (self.L if self.type == "cartesian" else 2 * self.l + 1)


class conditioning:
    """Context manager: inside it the block builders below return the sum of the MAGNITUDES of all terms they add up (binomial
    terms of the one-dimensional integrals, the terms of derivative polynomials, products entering r x grad, primitives with
    |coefficients|) instead of the integrals - a real, non-negative array of the same shape (see r1.ABS)."""

    def __enter__(self):
        self.prev = r1.ABS
        r1.ABS = True

    def __exit__(self, *exc):
        r1.ABS = self.prev


def condition(blockfn, sa, sb, *args, **kw):
    """Conditioning scale of blockfn(sa, sb, ...): what an evaluation that adds up the same terms may lose to rounding, per eps."""
    with conditioning():
        return np.abs(blockfn(sa, sb, *args, **kw))


def _tables(sa, sb, extra_j=0, C=None, kmax=0):
    C = np.zeros(3) if C is None else np.asarray(C, dtype=float)
    return [r1.table1d(sa.exps, sa.A[ax], sb.exps, sb.A[ax], sa.l, sb.l + extra_j, C[ax], kmax)
            for ax in range(3)]


def _pick(tab, sa, sb, ax):
    """tab[i, j, ka, kb] -> [ca, cb, ka, kb] for the components' exponents on axis ax."""
    return tab[sa.comps[:, ax][:, None], sb.comps[:, ax][None, :]]


def _contract(prim, sa, sb):
    """prim[ca, cb, ka, kb, ...] -> block[ma, ca, mb, cb, ...] with primitive norms and coefficients."""
    ex = (slice(None),) * 4 + (None,) * (prim.ndim - 4)
    prim = prim * sa.pn[:, None, :, None][ex] * sb.pn[None, :, None, :][ex]
    ca, cb = (np.abs(sa.coeffs), np.abs(sb.coeffs)) if r1.ABS else (sa.coeffs, sb.coeffs)
    return np.einsum("abkl...,km,ln->manb...", prim, ca, cb)


def _norm(block, sa, sb):
    ex = (None,) * (block.ndim - 4)
    return block * sa.cn[:, :, None, None][(...,) + ex] * sb.cn[None, None, :, :][(...,) + ex]


def overlap_block(sa, sb, normalised=True):
    t = _tables(sa, sb)
    prim = _pick(t[0][:, :, 0], sa, sb, 0) * _pick(t[1][:, :, 0], sa, sb, 1) * _pick(t[2][:, :, 0], sa, sb, 2)
    blk = _contract(prim, sa, sb)
    return _norm(blk, sa, sb) if normalised else blk


def moment_block(sa, sb, C, orders, normalised=True):
    orders = np.asarray(orders, dtype=int).reshape(-1, 3)
    kmax = int(orders.max()) if orders.size else 0
    t = _tables(sa, sb, C=C, kmax=kmax)
    out = []
    for o in orders:
        out.append(_pick(t[0][:, :, o[0]], sa, sb, 0) * _pick(t[1][:, :, o[1]], sa, sb, 1)
                   * _pick(t[2][:, :, o[2]], sa, sb, 2))
    prim = np.stack(out, axis=-1) if out else np.zeros((sa.L, sb.L, sa.K, sb.K, 0))
    blk = _contract(prim, sa, sb)
    return _norm(blk, sa, sb) if normalised else blk


def deriv_block(sa, sb, order, normalised=True):
    """<a| d^ox/dx d^oy/dy d^oz/dz |b>."""
    order = [int(v) for v in order]
    t = _tables(sa, sb, extra_j=max(order))
    prim = 1.0
    for ax in range(3):
        d = r1.deriv_table(t[ax], sb.exps, sb.l, order[ax])
        prim = prim * _pick(d, sa, sb, ax)
    blk = _contract(prim, sa, sb)
    return _norm(blk, sa, sb) if normalised else blk


def kinetic_block(sa, sb, normalised=True):
    return (0.5 if r1.ABS else -0.5) * sum(deriv_block(sa, sb, o, normalised) for o in ((2, 0, 0), (0, 2, 0), (0, 0, 2)))


def momentum_block(sa, sb, normalised=True):
    """<a| -i grad |b>, last axis = x, y, z."""
    return (1.0 if r1.ABS else -1j) * np.stack([deriv_block(sa, sb, o, normalised) for o in ((1, 0, 0), (0, 1, 0), (0, 0, 1))], -1)


def angmom_block(sa, sb, normalised=True):
    """<a| -i r x grad |b> about the coordinate origin, last axis = x, y, z."""
    t = _tables(sa, sb, extra_j=1, C=np.zeros(3), kmax=1)
    S = [_pick(t[ax][:, : sb.l + 1, 0], sa, sb, ax) for ax in range(3)]
    R = [_pick(t[ax][:, : sb.l + 1, 1], sa, sb, ax) for ax in range(3)]
    D = [_pick(r1.deriv_table(t[ax], sb.exps, sb.l, 1), sa, sb, ax) for ax in range(3)]
    out = []
    for (u, v, w) in ((0, 1, 2), (1, 2, 0), (2, 0, 1)):
        # component u: r_v d_w - r_w d_v
        out.append(S[u] * (R[v] * D[w] + R[w] * D[v]) if r1.ABS else S[u] * (R[v] * D[w] - R[w] * D[v]))
    blk = _contract(np.stack(out, -1), sa, sb)
    return (1.0 if r1.ABS else -1j) * (_norm(blk, sa, sb) if normalised else blk)


# -------------------------------------------------------------------------------------------
# assembly in documented layout
# -------------------------------------------------------------------------------------------
def flatten_block(blk, sa, sb):
    """[ma, ca, mb, cb, ...] -> [(ma, pa), (mb, pb), ...] after the spherical transforms."""
    if sa.type == "spherical":
        blk = np.einsum("pc,mcnd...->mpnd...", sa.T, blk)
    if sb.type == "spherical":
        blk = np.einsum("qd,mpnd...->mpnq...", sb.T, blk)
    s = blk.shape
    return blk.reshape((s[0] * s[1], s[2] * s[3]) + s[4:])


def two_index(shells_a, shells_b, blockfn):
    rows = []
    for sa in shells_a:
        rows.append(np.concatenate([flatten_block(blockfn(sa, sb), sa, sb) for sb in shells_b], axis=1))
    return np.concatenate(rows, axis=0)


def diag_index(shells, blockfn):
    """Diagonal (a == b) of two_index(shells, shells, blockfn) computed from the diagonal shell blocks only."""
    parts = []
    for s in shells:
        f = flatten_block(blockfn(s, s), s, s)
        parts.append(np.einsum("aa...->a...", f))
    return np.concatenate(parts, axis=0)


def abs_shells(shells):
    """Copies with |coefficients| (normalisation constants kept): integrals over them bound the magnitude of the terms
    that are added up for the true functions, so they give scales that cannot cancel to zero."""
    import copy

    out = []
    for s in shells:
        t = copy.copy(s)
        t.coeffs = np.abs(s.coeffs)
        out.append(t)
    return out


def refs(shell_dicts, **kw):
    return [ShellRef(d, **kw) for d in shell_dicts]


def offsets(shells):
    out = [0]
    for s in shells:
        out.append(out[-1] + s.nfun)
    return out


def one_index_transform(shells):
    """Block-diagonal matrix mapping the all-Cartesian function list to the typed function list."""
    ncart = sum(s.M * s.L for s in shells)
    nout = sum(s.nfun for s in shells)
    W = np.zeros((nout, ncart))
    r = c = 0
    for s in shells:
        for _ in range(s.M):
            if s.type == "spherical":
                W[r:r + 2 * s.l + 1, c:c + s.L] = s.T
                r += 2 * s.l + 1
            else:
                W[r:r + s.L, c:c + s.L] = np.eye(s.L)
                r += s.L
            c += s.L
    return W
