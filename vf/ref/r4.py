"""R4 - real regular solid harmonics from the harmonicity recurrence (no import of gbasis).

C_lm + i S_lm = (x+iy)^m * sum_k b_k z^(l-m-2k) (x^2+y^2)^k,  b_0 = 1,
b_(k+1) = -b_k (l-m-2k)(l-m-2k-1) / (4 (k+1)(m+k+1))
(the unique polynomial solution of Laplace's equation with azimuthal dependence e^{i m phi};
b_0 > 0 is the "positive common factor near the pole").  Coefficients are exact Fractions.
gbasis uses Helgaker's closed triple sum with binomials and an explicit norm - nothing shared.
"""
from fractions import Fraction
from functools import lru_cache
from math import comb

import numpy as np


def dfact(n):
    """(n)!! with (-1)!! = 1."""
    out = 1
    while n > 1:
        out *= n
        n -= 2
    return out


def default_cart(l):
    """Documented default: x exponent descending, then y exponent descending."""
    return [(x, y, l - x - y) for x in range(l, -1, -1) for y in range(l - x, -1, -1)]


def default_sph(l):
    """Documented default labels: s_l .. s_1 c_0 c_1 .. c_l, except l = 1: c1 s1 c0."""
    if l == 1:
        return ["c1", "s1", "c0"]
    return ["s%d" % m for m in range(l, 0, -1)] + ["c%d" % m for m in range(l + 1)]


def _pmul(p, q):
    out = {}
    for (a, b, c), u in p.items():
        for (d, e, f), v in q.items():
            key = (a + d, b + e, c + f)
            out[key] = out.get(key, 0) + u * v
    return {k: v for k, v in out.items() if v != 0}


@lru_cache(maxsize=None)
def harmonic_poly(l, m):
    """(C_lm, S_lm) as {(ax,ay,az): Fraction}; S is {} for m = 0."""
    # radial-axial part sum_k b_k z^(l-m-2k) (x^2+y^2)^k
    part = {}
    b = Fraction(1)
    k = 0
    while l - m - 2 * k >= 0:
        for j in range(k + 1):
            key = (2 * j, 2 * (k - j), l - m - 2 * k)
            part[key] = part.get(key, 0) + b * comb(k, j)
        n = l - m - 2 * k
        b = -b * n * (n - 1) / Fraction(4 * (k + 1) * (m + k + 1))
        k += 1
    re, im = {}, {}
    for k in range(m + 1):  # (x+iy)^m = sum_k C(m,k) x^(m-k) (iy)^k
        c = comb(m, k)
        if k % 2 == 0:
            re[(m - k, k, 0)] = Fraction(c * (-1) ** (k // 2))
        else:
            im[(m - k, k, 0)] = Fraction(c * (-1) ** ((k - 1) // 2))
    return _pmul(re, part), (_pmul(im, part) if m > 0 else {})


def cart_overlap_same_shell(comps):
    """Overlap of unit-normalised Cartesian Gaussians sharing centre and exponent (closed form)."""
    n = len(comps)
    S = np.zeros((n, n))
    for i, a in enumerate(comps):
        for j, b in enumerate(comps):
            v = 1.0
            for x, y in zip(a, b):
                if (x + y) % 2:
                    v = 0.0
                    break
                v *= dfact(x + y - 1) / np.sqrt(dfact(2 * x - 1) * dfact(2 * y - 1))
            S[i, j] = v
    return S


def parse_label(label):
    sign = 1
    if label.startswith("-"):
        sign = -1
        label = label[1:]
    kind, m = label[0], int(label[1:])
    return sign, kind, m


def c2s_matrix(l, cart=None, labels=None):
    """Reference Cartesian -> spherical matrix, rows = labels, columns = cart components.

    Row p expresses the spherical function as sum_c T[p,c] g_c with g_c unit-normalised Cartesian
    functions; each row is scaled so that the spherical function is unit-normalised.
    """
    cart = [tuple(int(v) for v in c) for c in (default_cart(l) if cart is None else cart)]
    labels = list(default_sph(l) if labels is None else labels)
    idx = {c: i for i, c in enumerate(cart)}
    S = cart_overlap_same_shell(cart)
    T = np.zeros((len(labels), len(cart)))
    for p, lab in enumerate(labels):
        sign, kind, m = parse_label(lab)
        C, Sn = harmonic_poly(l, m)
        poly = C if kind == "c" else Sn
        row = np.zeros(len(cart))
        for comp, coef in poly.items():
            row[idx[comp]] = float(coef) * np.sqrt(float(np.prod([dfact(2 * a - 1) for a in comp])))
        row /= np.sqrt(row @ S @ row)
        T[p] = sign * row
    return T
