"""R5 - pointwise values and mixed partial derivatives of the functions a basis defines.

Each 1-D factor u^n exp(-alpha u^2) (u = x - X) is a coefficient array times a Gaussian; one
differentiation is P -> P' - 2 alpha u P on the coefficient array.  The value is the product over the
three axes, summed over primitives with the R3 norms.  (gbasis: Leibniz sum over Hermite polynomials
in the general back-end, hand-expanded branches in the direct one.)  Also returns sum|terms|, the
condition-aware scale used in tolerances, and the same sum with |u| replaced by |u| + 1/sqrt(alpha)
(the magnitude of the function in its neighbourhood, used as an absolute floor).  No import of gbasis.
"""
import numpy as np

from vf.ref import r1, r3


def _axis_factor(alpha, n, m, u):
    """value[k, N], abs[k, N], absn[k, N] of d^m/du^m [u^n exp(-alpha u^2)]."""
    q = r1.ket_deriv_poly(alpha, n, m)  # (K, n+m+1)
    pw = u[None, :] ** np.arange(q.shape[1])[:, None]  # (deg, N)
    g = np.exp(-alpha[:, None] * u[None, :] ** 2)
    val = (q @ pw) * g
    ab = (np.abs(q) @ np.abs(pw)) * g
    un = np.abs(u)[None, :] + 1.0 / np.sqrt(alpha)[:, None]  # (K, N)
    pwn = un[:, None, :] ** np.arange(q.shape[1])[None, :, None]  # (K, deg, N)
    absn = np.einsum("kd,kdn->kn", np.abs(q), pwn) * g
    return val, ab, absn


def eval_shell_cart(s, points, order):
    """[m, c, N] values, sum|terms| and neighbourhood magnitude for a ShellRef, Cartesian components."""
    points = np.asarray(points, dtype=float).reshape(-1, 3)
    order = [int(o) for o in order]
    fac = {}
    for ax in range(3):
        u = points[:, ax] - s.A[ax]
        for n in set(int(x) for x in s.comps[:, ax]):
            fac[(ax, n)] = _axis_factor(s.exps, n, order[ax], u)
    out = []
    for which in range(3):
        prim = np.stack([fac[(0, int(c[0]))][which] * fac[(1, int(c[1]))][which] * fac[(2, int(c[2]))][which]
                         for c in s.comps])  # (c, k, N)
        co = s.coeffs if which == 0 else np.abs(s.coeffs)
        out.append(np.einsum("ckn,ck,km->mcn", prim, s.pn, co) * s.cn[:, :, None])
    return out


def eval_basis(shells, points, order=(0, 0, 0)):
    """values[f, N], sum|terms|[f, N], neighbourhood[f, N] in documented function order."""
    vals, abss, nbs = [], [], []
    for s in shells:
        v, a, nb = eval_shell_cart(s, points, order)
        if s.type == "spherical":
            v = np.einsum("pc,mcn->mpn", s.T, v)
            a = np.einsum("pc,mcn->mpn", np.abs(s.T), a)
            nb = np.einsum("pc,mcn->mpn", np.abs(s.T), nb)
        vals.append(v.reshape(-1, v.shape[-1]))
        abss.append(a.reshape(-1, a.shape[-1]))
        nbs.append(nb.reshape(-1, nb.shape[-1]))
    return np.concatenate(vals), np.concatenate(abss), np.concatenate(nbs)


def selftest(results, ok):
    """R5 against mpmath differentiation of the explicit function."""
    import mpmath as mp

    mp.mp.dps = 40
    d = {"l": 3, "coord": [0.3, -0.2, 0.5], "exps": [1.3, 0.4], "coeffs": [[0.7], [0.5]], "type": "cartesian"}
    s = r3.ShellRef(d)
    pts = np.array([[0.3, 0.4, 0.5], [1.0, -0.7, 0.2], [0.3, -0.2, 0.5]])
    worst = 0.0
    for order in ((0, 0, 0), (1, 0, 2), (3, 1, 0), (2, 2, 2), (0, 4, 1)):
        v, a, nb = eval_shell_cart(s, pts, order)
        for ci, c in enumerate(s.comps):
            def f(x, y, z, c=c, ci=ci):
                tot = 0
                for k in range(2):
                    tot += (d["coeffs"][k][0] * s.pn[ci, k] * (x - s.A[0]) ** int(c[0]) * (y - s.A[1]) ** int(c[1])
                            * (z - s.A[2]) ** int(c[2]) * mp.exp(-d["exps"][k] * ((x - s.A[0]) ** 2 + (y - s.A[1]) ** 2 + (z - s.A[2]) ** 2)))
                return tot * s.cn[0, ci]
            for pi, p in enumerate(pts):
                want = float(mp.diff(f, tuple(p), tuple(order)))
                worst = max(worst, abs(v[0, ci, pi] - want) / (a[0, ci, pi] + 1e-14 * nb[0, ci, pi]))
    ok("R5 derivatives vs mpmath.diff (f shell, 5 orders, 3 points incl. on-centre)", worst, 1e-9, results)
