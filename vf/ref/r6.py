"""R6 - representation matrices of rigid motions on the functions of a shell (no import of gbasis).

Moved system r' = Q r + t (Q orthogonal, det +-1).  D is defined by phi_a(r) = sum_c D[a,c] phi'_c(r') where phi' are the
functions of the moved shell (centre Q A + t, same exponents/coefficients).  Cartesian block: expand (Q^T u')^a into monomials
u'^c and multiply by N_a/N_c with N_c = 1/sqrt((2cx-1)!!(2cy-1)!!(2cz-1)!!).  Spherical block: T D_cart S_cart T^T with T from R4
and S_cart the same-shell overlap of normalised Cartesian components.
"""
import numpy as np

from vf.ref import r4


def _expand(Q, a):
    """(Q^T u')^a as {c: coefficient} with (Q^T u')_k = sum_j Q[j,k] u'_j."""
    poly = {(0, 0, 0): 1.0}
    for k in range(3):
        lin = {}
        for j in range(3):
            if Q[j, k] != 0:
                key = [0, 0, 0]
                key[j] = 1
                lin[tuple(key)] = float(Q[j, k])
        for _ in range(int(a[k])):
            new = {}
            for c1, v1 in poly.items():
                for c2, v2 in lin.items():
                    key = (c1[0] + c2[0], c1[1] + c2[1], c1[2] + c2[2])
                    new[key] = new.get(key, 0.0) + v1 * v2
            poly = new
    return poly


def cart_block(Q, comps):
    comps = [tuple(int(x) for x in c) for c in comps]
    idx = {c: i for i, c in enumerate(comps)}
    n = len(comps)
    D = np.zeros((n, n))
    norm = [1.0 / np.sqrt(np.prod([r4.dfact(2 * x - 1) for x in c])) for c in comps]
    for i, a in enumerate(comps):
        for c, v in _expand(Q, a).items():
            D[i, idx[c]] += v * norm[i] / norm[idx[c]]
    return D


def shell_block(Q, s):
    """Block of D for a ShellRef (one segment)."""
    Dc = cart_block(Q, s.comps)
    if s.type == "cartesian":
        return Dc
    S = r4.cart_overlap_same_shell([tuple(c) for c in s.comps])
    D = s.T @ Dc @ S @ s.T.T
    # entries that vanish exactly (every signed permutation, rotations about an axis) come out of the floating-point product as
    # ~1e-17: such a "zero" would couple a component to another one that may be 1e5 times larger in the tail of a tight shell.
    D[np.abs(D) < 1e-15 * np.abs(D).max()] = 0.0
    return D


def basis_matrix(Q, shells):
    n = sum(s.nfun for s in shells)
    D = np.zeros((n, n))
    r = 0
    for s in shells:
        blk = shell_block(Q, s)
        k = blk.shape[0]
        for _ in range(s.M):
            D[r:r + k, r:r + k] = blk
            r += k
    return D


def signed_permutations():
    """All 48 orthogonal matrices with entries in {0, +-1}."""
    import itertools

    out = []
    for perm in itertools.permutations(range(3)):
        for signs in itertools.product((1.0, -1.0), repeat=3):
            Q = np.zeros((3, 3))
            for j in range(3):
                Q[j, perm[j]] = signs[j]
            out.append(Q)
    return out
