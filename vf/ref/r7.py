"""R7 - basis-set files: a model, writers for NWChem / Gaussian94 text, and the expected parse.

A *model* is {element: [(l_letters, [exps], [[coeff columns]])...]} in file order.  `l_letters` is one
letter (S, P, D, ...) or "SP".  The writers render it under a drawn layout; `expected_*` compute what
a correct reader must return from the exact float() of the emitted tokens.  Also a small line-based
reference reader (used by the selftest anchor only).  No import of gbasis.
"""
import re

ANGMOM = {"s": 0, "p": 1, "d": 2, "f": 3, "g": 4, "h": 5, "i": 6, "k": 7}
LETTERS = "spdfghik"


def tofloat(tok):
    return float(tok.lower().replace("d", "e"))


def parse_nwchem_reference(text):
    """Line-based reader: {element: [(l, [exps], [[K x M coeffs]])]} with SP shells split."""
    out = {}
    cur = None
    for raw in text.split("\n"):
        line = raw.strip()
        if not line or line.startswith("#"):
            continue
        toks = line.split()
        if len(toks) == 2 and toks[0].isalpha() and toks[1].isalpha() and toks[0].upper() not in ("BASIS", "END") \
                and all(c in LETTERS for c in toks[1].lower()):
            cur = (toks[0], [ANGMOM[c] for c in toks[1].lower()], [], [])
            out.setdefault(toks[0], []).append(cur)
            continue
        if cur is not None and re.fullmatch(r"[0-9.DEde+\-]+", toks[0]) and len(toks) >= 2:
            try:
                vals = [tofloat(t) for t in toks]
            except ValueError:
                continue
            cur[2].append(vals[0])
            cur[3].append(vals[1:])
    res = {}
    for el, shells in out.items():
        res[el] = []
        for _, ls, exps, rows in shells:
            if len(ls) == 1:
                res[el].append((ls[0], exps, rows))
            else:
                for i, l in enumerate(ls):
                    res[el].append((l, exps, [[r[i]] for r in rows]))
    return res


# ------------------------------------------------------------------------------------------------
# writers: model -> text, and the parse a correct reader must return
# ------------------------------------------------------------------------------------------------
# model: list of (element, [shell, ...]) in file order; shell = {"letters": "S"|"P"|...|"SP",
#        "exps": [token, ...], "cols": [[token per column] per primitive]}
def _rows(shell, indent, sep, inner=None):
    """inner: None, or a line ('' or a comment) inserted after the first primitive row of shells with several primitives."""
    out = []
    for n, (e, row) in enumerate(zip(shell["exps"], shell["cols"])):
        out.append(" " * indent + e + "".join(" " * sep + c for c in row))
        if inner is not None and n == 0 and len(shell["exps"]) > 1:
            out.append(inner)
    return out


def write_nwchem(model, layout):
    """layout: header (list of lines), indent, sep, gap (spaces between element and letter), comments (bool),
    blanks (bool), end (bool)."""
    lines = list(layout.get("header", []))
    for el, shells in model:
        if layout.get("comments"):
            lines.append("#BASIS SET: (%ds) -> [%ds]" % (len(shells), len(shells)))
        for s in shells:
            lines.append(el + " " * layout.get("gap", 4) + s["letters"])
            lines += _rows(s, layout.get("indent", 4), layout.get("sep", 6), layout.get("inner"))
            if layout.get("blanks"):
                lines.append("")
    if layout.get("end", True):
        lines.append("END")
    return "\n".join(lines) + "\n"


def write_gbs(model, layout):
    lines = list(layout.get("header", []))
    for n, (el, shells) in enumerate(model):
        lines.append(el + " " * layout.get("gap", 5) + "0")
        for s in shells:
            lines.append("%s   %d   1.00" % (s["letters"], len(s["exps"])))
            lines += _rows(s, layout.get("indent", 6), layout.get("sep", 7))
        if n < len(model) - 1 or layout.get("end", True):
            lines.append("****")
        if layout.get("blanks"):
            lines.append("")
    return "\n".join(lines) + "\n"


def _split(shell):
    """One written shell -> list of (l, [exps], [[coeff per column] per primitive]) with SP split."""
    exps = [tofloat(t) for t in shell["exps"]]
    cols = [[tofloat(t) for t in row] for row in shell["cols"]]
    letters = shell["letters"].lower()
    if len(letters) == 1:
        return [(ANGMOM[letters], exps, cols)]
    return [(ANGMOM[c], exps, [[row[i]] for row in cols]) for i, c in enumerate(letters)]


def expected_nwchem(model):
    out = {}
    for el, shells in model:
        for s in shells:
            out.setdefault(el, []).extend(_split(s))
    return out


def expected_gbs(model):
    """Gaussian94: consecutive shells of one element block with equal l and equal exponents form one generalized shell."""
    out = {}
    for el, shells in model:
        lst = out.setdefault(el, [])
        for s in shells:
            for (l, exps, cols) in _split(s):
                if lst and lst[-1][0] == l and lst[-1][1] == exps and len(s["letters"]) == 1 and not lst[-1][3]:
                    lst[-1] = (l, exps, [a + b for a, b in zip(lst[-1][2], cols)], False)
                else:
                    lst.append((l, exps, cols, len(s["letters"]) > 1))
    return {el: [(l, e, c) for (l, e, c, _) in lst] for el, lst in out.items()}
