"""R7 - basis-set files: a model, writers for NWChem / Gaussian94 text, and the expected parse.

A *model* is {element: [(l_letters, [exps], [[coeff columns]])...]} in file order.  `l_letters` is one
letter (S, P, D, ...) or "SP".  The writers render it under a drawn layout; `expected_*` compute what
a correct reader must return from the exact float() of the emitted tokens.  Also a small line-based
reference reader (used by the selftest anchor only).  No import of gbasis.
"""
import re

ANGMOM = {"s": 0, "p": 1, "d": 2, "f": 3, "g": 4, "h": 5, "i": 6, "k": 7}
LETTERS = "spdfghik"


def tofloat(tok):
    return float(tok.lower().replace("d", "e"))


def parse_nwchem_reference(text):
    """Line-based reader: {element: [(l, [exps], [[K x M coeffs]])]} with SP shells split."""
    out = {}
    cur = None
    for raw in text.split("\n"):
        line = raw.strip()
        if not line or line.startswith("#"):
            continue
        toks = line.split()
        if len(toks) == 2 and toks[0].isalpha() and toks[1].isalpha() and toks[0].upper() not in ("BASIS", "END") \
                and all(c in LETTERS for c in toks[1].lower()):
            cur = (toks[0], [ANGMOM[c] for c in toks[1].lower()], [], [])
            out.setdefault(toks[0], []).append(cur)
            continue
        if cur is not None and re.fullmatch(r"[0-9.DEde+\-]+", toks[0]) and len(toks) >= 2:
            try:
                vals = [tofloat(t) for t in toks]
            except ValueError:
                continue
            cur[2].append(vals[0])
            cur[3].append(vals[1:])
    res = {}
    for el, shells in out.items():
        res[el] = []
        for _, ls, exps, rows in shells:
            if len(ls) == 1:
                res[el].append((ls[0], exps, rows))
            else:
                for i, l in enumerate(ls):
                    res[el].append((l, exps, [[r[i]] for r in rows]))
    return res
