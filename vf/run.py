"""Runner: ./check <ID> quick|thorough ; ./check <ID> --replay <file> ; ./check --setup.

A property module (vf/props/cNN.py) exposes
    RULE       str   how cases are generated and what makes one non-trivial
    SUBCHECKS  list of SubCheck
Each SubCheck is split into shards; a shard is either a Hypothesis run (strategy) or a deterministic
enumeration (cases).  Shards run in a process pool.  Exit 0 / 1 (VIOLATION) / 2 (harness error).
"""
import importlib
import json
import multiprocessing as mp
import os
import sys
import time
import traceback
from collections import Counter

import numpy as np

from vf.core import VERIF, LibRaised, Verdict, case_hash, jsonable, sub_seed

NP_ERR = dict(divide="warn", over="warn", under="ignore", invalid="warn")

PROPS = ["C%02d" % i for i in range(1, 21)]
# where evidence/ and replay/<id>/found-* are written; the mutation driver points this at its scratch directory so that
# runs against a mutated copy never touch the committed evidence
OUT = os.environ.get("VERIF_OUT", VERIF)
NPROC = int(os.environ.get("VERIF_NPROC", "16"))


class SubCheck:
    def __init__(self, name, judge, shards, strategy=None, cases=None, machine=None, doc=""):
        self.name = name
        self.machine = machine  # shard, report(case, verdict) -> RuleBasedStateMachine class (histories)
        self.judge = judge  # case -> Verdict
        self.shards = shards  # tier -> list of dict(id=..., n=..., **params)
        self.strategy = strategy  # shard -> hypothesis strategy
        self.cases = cases  # shard -> iterable of cases (deterministic enumeration)
        self.doc = doc


def load(prop):
    return importlib.import_module("vf.props." + prop.lower())


def find_sub(mod, name):
    for s in mod.SUBCHECKS:
        if s.name == name:
            return s
    raise KeyError(name)


def known_findings():
    """Open findings: {(property, key): text}.  'fixed:' lines suppress nothing."""
    out = {}
    path = os.path.join(VERIF, "KNOWN_FINDINGS.txt")
    if os.path.exists(path):
        for line in open(path):
            line = line.strip()
            if line.startswith("finding:"):
                fields = dict(f.split("=", 1) for f in line.split()[1:3] if "=" in f)
                rest = " ".join(line.split()[3:])
                out[(fields.get("property"), fields.get("key"))] = rest
    return out


def safe_judge(sub, case):
    """Judge a case; library exceptions on valid input are failures, anything else propagates."""
    try:
        return sub.judge(case)
    except LibRaised as e:
        return Verdict(ok=False, msg=str(e), nontrivial=True, classes=["lib-raised"])
    except _Fail:
        raise
    except Exception as e:  # noqa: BLE001
        # an exception that originates inside the library (a gbasis frame is innermost on the stack) on an input of the
        # property's domain is a failure of the library; anything else is a defect of the harness and propagates (exit 2)
        from vf.core import REPO

        tb = e.__traceback__
        last = None
        while tb is not None:
            last = tb.tb_frame.f_code.co_filename
            tb = tb.tb_next
        if last and os.path.realpath(last).startswith(os.path.join(os.path.realpath(REPO), "gbasis")):
            return Verdict(ok=False, msg=f"library raised {type(e).__name__}: {e}", nontrivial=True, classes=["lib-raised"])
        raise


class _Fail(Exception):
    pass


def _start_line_coverage():
    """VERIF_COV=<dir>: record which lines of gbasis the shard executes (a reading aid for blind spots, not a verdict)."""
    import sys as _s

    from vf.core import REPO

    root = os.path.join(os.path.realpath(REPO), "gbasis") + os.sep
    seen = set()
    mon = _s.monitoring
    tool = mon.COVERAGE_ID
    try:
        mon.use_tool_id(tool, "vf-cov")
    except ValueError:
        pass

    def on_line(code, line):
        fn = code.co_filename
        if fn.startswith(root) or os.path.realpath(fn).startswith(root):
            seen.add((fn[len(root):] if fn.startswith(root) else os.path.realpath(fn)[len(root):], line))
        return mon.DISABLE

    mon.register_callback(tool, mon.events.LINE, on_line)
    mon.set_events(tool, mon.events.LINE)
    return seen


def run_shard(args):
    prop, sub_name, shard, seed, tier = args
    t0 = time.time()
    cov = _start_line_coverage() if os.environ.get("VERIF_COV") else None
    res = {
        "sub": sub_name,
        "shard": shard.get("id"),
        "evaluations": 0,
        "nontrivial": set(),
        "classes": Counter(),
        "samples": {},
        "failures": [],
        "known": [],
        "error": None,
        "worst": {},
    }
    try:
        mod = load(prop)
        sub = find_sub(mod, sub_name)
        known = known_findings()

        targeting = False

        def handle(case):
            np.seterr(**NP_ERR)  # a leak of the error state by one case must not change the verdict of the next
            v = safe_judge(sub, case)
            res["evaluations"] += 1
            h = case_hash(case)
            if v.nontrivial:
                res["nontrivial"].add(h)
            for c in v.classes:
                res["classes"][c] += 1
            if v.nontrivial and len(res["samples"]) < 2:
                res["samples"].setdefault(h, jsonable(case))
            for k, val in v.info.items():
                if isinstance(val, (int, float)) and val == val:
                    res["worst"][k] = max(res["worst"].get(k, val), val)
            if targeting and v.ok:
                # guided search (Hypothesis targeting): steer generation towards cases with the largest deviation observed so
                # far, so that accuracy defects confined to a corner of the domain are approached instead of waited for
                devs = [float(x) for k, x in v.info.items() if ("dev" in k) and isinstance(x, (int, float)) and x == x and 0 < x < 1e300]
                if devs:
                    import math

                    from hypothesis import target

                    target(math.log10(max(devs)), label="log10(largest deviation / scale)")
            if not v.ok:
                if v.key is not None and (prop, v.key) in known:
                    res["known"].append((v.key, known[(prop, v.key)]))
                    return
                f = {"case": jsonable(case), "msg": v.msg, "key": v.key}
                if sub.strategy is not None or sub.machine is not None:
                    res["failures"] = [f]  # the last failing example is the (shrunk) final one
                else:
                    res["failures"].append(f)
                raise _Fail(v.msg)

        if sub.machine is not None:
            from hypothesis import HealthCheck, Phase, seed as hseed, settings
            from hypothesis.stateful import run_state_machine_as_test

            phases = [Phase.explicit, Phase.generate]
            if tier == "thorough" or os.environ.get("VERIF_SHRINK") == "1":
                phases.append(Phase.shrink)

            def report(case, verdict):
                """Called by the machine at the end of every generated history (or at the failing step)."""
                res["evaluations"] += 1
                h = case_hash(case)
                if verdict.nontrivial:
                    res["nontrivial"].add(h)
                for c in verdict.classes:
                    res["classes"][c] += 1
                if verdict.nontrivial and len(res["samples"]) < 2:
                    res["samples"].setdefault(h, jsonable(case))
                if not verdict.ok:
                    res["failures"] = [{"case": jsonable(case), "msg": verdict.msg, "key": verdict.key}]
                    raise _Fail(verdict.msg)

            Machine = sub.machine(shard, report)
            try:
                run_state_machine_as_test(
                    hseed(seed)(Machine),
                    settings=settings(
                        max_examples=int(shard.get("n", 10)) + 1,
                        stateful_step_count=int(shard.get("steps", 20)),
                        database=None,
                        deadline=None,
                        derandomize=False,
                        report_multiple_bugs=False,
                        phases=phases,
                        suppress_health_check=[HealthCheck.too_slow, HealthCheck.data_too_large],
                    ),
                )
            except _Fail:
                pass
            except BaseException as e:  # noqa: BLE001
                # the recorded violation stands when Hypothesis' own re-run of the failing history behaves differently (results that
                # depend on what the process did before are exactly what this machine looks for)
                from hypothesis.errors import Flaky

                if isinstance(e, Flaky) and res["failures"]:
                    res["classes"]["result-depends-on-call-history"] += 1
                else:
                    raise
        elif sub.strategy is not None:
            from hypothesis import HealthCheck, Phase, given, seed as hseed, settings

            phases = [Phase.explicit, Phase.generate]
            if tier == "thorough" or os.environ.get("VERIF_SHRINK") == "1":
                phases.append(Phase.shrink)
            if (tier == "thorough" or os.environ.get("VERIF_TARGET") == "1") and int(shard.get("n", 10)) >= 20:
                phases.insert(2, Phase.target)
                targeting = True
            # Hypothesis always starts with the all-minimal example (one s shell at the origin, coincident centres, ...);
            # one extra example is granted so that a shard of n examples contains n generated ones.
            n = int(shard.get("n", 10)) + 1

            @hseed(seed)
            @settings(
                max_examples=n,
                database=None,
                deadline=None,
                derandomize=False,
                report_multiple_bugs=False,
                phases=phases,
                suppress_health_check=[HealthCheck.too_slow, HealthCheck.data_too_large],
            )
            @given(sub.strategy(shard))
            def t(case):
                handle(case)

            try:
                t()
            except _Fail:
                pass
            except BaseException as e:  # noqa: BLE001
                # Hypothesis re-runs a failing example; code under test whose result depends on the call history (a cache, leaked
                # state) then behaves differently and Hypothesis reports FlakyFailure (an exception group around _Fail).  The
                # violation itself was recorded by handle() before _Fail was raised: it stands, and is not a harness error.
                from hypothesis.errors import Flaky

                if isinstance(e, Flaky) and res["failures"]:
                    res["classes"]["result-depends-on-call-history"] += 1
                else:
                    raise
        else:
            for case in sub.cases(shard):
                try:
                    handle(case)
                except _Fail:
                    if len(res["failures"]) >= 3:
                        break
    except BaseException as e:  # noqa: BLE001  harness/oracle/generator error -> exit 2
        if isinstance(e, KeyboardInterrupt):
            raise
        res["error"] = "".join(traceback.format_exception(type(e), e, e.__traceback__))[-4000:]
    if cov is not None:
        os.makedirs(os.environ["VERIF_COV"], exist_ok=True)
        with open(os.path.join(os.environ["VERIF_COV"], f"{prop}-{sub_name}-{shard.get('id')}.json"), "w") as fh:
            json.dump(sorted(cov), fh)
    res["nontrivial"] = sorted(res["nontrivial"])
    res["classes"] = dict(res["classes"])
    res["samples"] = list(res["samples"].values())
    res["wall"] = time.time() - t0
    return res


def replay_file(prop, path):
    d = json.load(open(path))
    mod = load(prop)
    sub = find_sub(mod, d["sub"])
    v = safe_judge(sub, d["case"])
    return d, v


def write_evidence(prop, tier, seed, cov, wall, violations, assumptions):
    ev = {
        "property_id": prop,
        "tier": tier,
        "seed": seed,
        "level": "exploration",
        "coverage": cov,
        "assumptions": assumptions,
        "wall_s": round(wall, 2),
        "violations": violations,
    }
    os.makedirs(os.path.join(OUT, "evidence"), exist_ok=True)
    path = os.path.join(OUT, "evidence", prop + ".json")
    tmp = path + ".tmp"
    with open(tmp, "w") as fh:
        json.dump(jsonable(ev), fh, indent=1, sort_keys=True, allow_nan=False, default=str)
    os.replace(tmp, path)


def _finite(x):
    """JSON evidence must be strict: map inf/nan to strings."""
    if isinstance(x, float) and (x != x or x in (float("inf"), float("-inf"))):
        return str(x)
    if isinstance(x, dict):
        return {k: _finite(v) for k, v in x.items()}
    if isinstance(x, list):
        return [_finite(v) for v in x]
    return x


def main(argv):
    if argv and argv[0] == "--setup":
        from vf import selftest

        return selftest.main()
    if len(argv) < 2 or argv[0] not in PROPS:
        print("usage: check <C01..C20> quick|thorough | check <ID> --replay <file>", file=sys.stderr)
        return 2
    prop = argv[0]
    if argv[1] == "--replay":
        d, v = replay_file(prop, argv[2])
        if v.ok:
            print(f"replay {argv[2]}: property holds on this case")
            return 0
        print(f"replay {argv[2]}: {v.msg}")
        print(f"VIOLATION property={prop} replay={argv[2]}")
        return 1
    tier = argv[1]
    if tier not in ("quick", "thorough"):
        print("tier must be quick or thorough", file=sys.stderr)
        return 2
    os.environ["VERIF_TIER"] = tier
    seed = int(os.environ.get("VERIF_SEED", "1") or "1")
    t0 = time.time()
    mod = load(prop)
    only = os.environ.get("VERIF_ONLY")  # debugging aid: comma-separated sub-check names

    violations = []  # (replay path, msg)
    known_lines = []
    errors = []

    # 1. committed regression cases (seconds-long replay tier)
    rdir = os.path.join(VERIF, "replay", prop)
    n_replayed = 0
    if os.path.isdir(rdir):
        for fn in sorted(os.listdir(rdir)):
            if fn.startswith("reg-") and fn.endswith(".json"):
                p = os.path.join(rdir, fn)
                try:
                    d, v = replay_file(prop, p)
                except Exception:  # noqa: BLE001
                    errors.append(f"replay {p}: " + traceback.format_exc()[-1500:])
                    continue
                n_replayed += 1
                if not v.ok:
                    kf = known_findings()
                    if v.key is not None and (prop, v.key) in kf:
                        known_lines.append((v.key, kf[(prop, v.key)]))
                    else:
                        violations.append((os.path.relpath(p, VERIF), v.msg))

    # 2. generated search
    jobs = []
    for sub in mod.SUBCHECKS:
        if only and sub.name not in only.split(","):
            continue
        for shard in sub.shards(tier):
            jobs.append((prop, sub.name, shard, sub_seed(seed, prop, sub.name, shard.get("id")), tier))
    jobs.sort(key=lambda j: -float(j[2].get("cost", j[2].get("n", 1))))
    results = []
    if jobs:
        nproc = min(NPROC, len(jobs))
        if nproc <= 1:
            results = [run_shard(j) for j in jobs]
        else:
            ctx = mp.get_context("fork")
            # wall-clock guard: when the budget is used up no further results are awaited; the shards not finished are
            # reported as inconclusive (never as a violation)
            budget = float(os.environ.get("VERIF_BUDGET_S", "900" if tier == "quick" else "3600"))
            with ctx.Pool(nproc, maxtasksperchild=None) as pool:
                it = pool.imap_unordered(run_shard, jobs, chunksize=1)
                while len(results) < len(jobs):
                    left = budget - (time.time() - t0)
                    try:
                        results.append(it.next(timeout=max(1.0, left)))
                    except mp.TimeoutError:
                        pool.terminate()
                        break
                    except StopIteration:
                        break
    results.sort(key=lambda r: (r["sub"], str(r["shard"])))

    evaluations = n_replayed
    nontrivial = set()
    classes = Counter()
    per_sub = {}
    samples = []
    worst = {}
    for r in results:
        evaluations += r["evaluations"]
        nontrivial.update(r["sub"] + ":" + h for h in r["nontrivial"])
        ps = per_sub.setdefault(r["sub"], {"evaluations": 0, "nontrivial": 0, "shards": 0, "wall_s": 0.0})
        ps["evaluations"] += r["evaluations"]
        ps["nontrivial"] += len(r["nontrivial"])
        ps["shards"] += 1
        ps["wall_s"] = round(ps["wall_s"] + r["wall"], 2)
        for c, k in r["classes"].items():
            classes[r["sub"] + "/" + c] += k
        if r["samples"] and sum(1 for s in samples if s["sub"] == r["sub"]) < 1:
            samples.append({"sub": r["sub"], "case": r["samples"][0]})
        for k, val in r["worst"].items():
            kk = r["sub"] + "/" + k
            worst[kk] = max(worst.get(kk, val), val)
        for key, text in r["known"]:
            known_lines.append((key, text))
        if r["error"]:
            errors.append(f"{r['sub']} shard {r['shard']}:\n{r['error']}")
        for f in r["failures"][-1:]:
            fdir = os.path.join(OUT, "replay", prop)
            os.makedirs(fdir, exist_ok=True)
            h = case_hash(f["case"])
            p = os.path.join(fdir, f"found-{r['sub']}-{h}.json")
            with open(p, "w") as fh:
                json.dump({"property": prop, "sub": r["sub"], "case": f["case"], "msg": f["msg"],
                           "key": f["key"], "seed": seed, "tier": tier}, fh, indent=1, allow_nan=True)
            violations.append((os.path.relpath(p, VERIF) if OUT == VERIF else p, f["msg"]))

    wall = time.time() - t0
    thin = sorted(c for c in getattr(mod, "EXPECTED_CLASSES", []) if classes.get(c, 0) == 0)
    cov = {
        "evaluations": int(evaluations),
        "distinct_nontrivial": len(nontrivial),
        "rule": mod.RULE,
        "samples": samples[:8],
        "classes": dict(sorted(classes.items())),
        "per_subcheck": per_sub,
        "worst_observed": _finite({k: float(v) for k, v in sorted(worst.items())}),
        "regression_cases_replayed": n_replayed,
        "known_findings_hit": sorted({k for k, _ in known_lines}),
        "thin_classes": thin,
        "harness_errors": len(errors),
        "shards": len(jobs),
        "inconclusive_shards": len(jobs) - len(results),
    }
    if getattr(mod, "EXHAUSTIVE", None):
        cov["exhaustive_parts"] = mod.EXHAUSTIVE
    write_evidence(prop, tier, seed, _finite(cov), wall, len(violations), getattr(mod, "ASSUMPTIONS", []))

    for key, text in sorted(set(known_lines)):
        print(f"KNOWN-FINDING: property={prop} {key} {text}")
    if errors:
        for e in errors[:5]:
            print("HARNESS-ERROR:", e, file=sys.stderr)
        print(f"{prop} {tier}: harness error in {len(errors)} shard(s); no verdict", file=sys.stderr)
        return 2
    if violations:
        for p, msg in violations:
            print(f"  {msg}"[:600])
            print(f"VIOLATION property={prop} replay={p}")
        return 1
    inc = len(jobs) - len(results)
    print(f"{prop} {tier}: held on {evaluations} cases ({len(nontrivial)} distinct non-trivial) "
          f"in {wall:.1f}s seed={seed}" + (f" [{inc} of {len(jobs)} shards not finished within the time budget: inconclusive]" if inc else ""))
    return 0


if __name__ == "__main__":
    sys.exit(main(sys.argv[1:]))
