"""Validation of the reference oracles against constructions that share nothing with them.

Run by `./check --setup` (MANIFEST.setup_cmd).  Exit 0 when every anchor agrees, 2 otherwise
(an oracle that fails its own validation is a harness error, never a finding).
"""
import os
import sys

import numpy as np


def _ok(name, dev, tol, results):
    good = bool(dev <= tol)
    results.append(good)
    print(f"  [{'ok' if good else 'FAIL'}] {name}: {dev:.3e} (tol {tol:g})")


def r1_vs_quadrature(results):
    from vf.ref import r1

    rng = np.random.RandomState(12345)  # selftest only: fixed numbers, not a property run
    x, w = np.polynomial.hermite.hermgauss(60)
    worst = 0.0
    for _ in range(200):
        a, b = np.exp(rng.uniform(np.log(0.05), np.log(50), 2))
        A, B, C = rng.uniform(-2, 2, 3)
        i, j, k = rng.randint(0, 6), rng.randint(0, 6), rng.randint(0, 4)
        p = a + b
        P = (a * A + b * B) / p
        t = x / np.sqrt(p) + P
        quad = np.sum(w * (t - A) ** i * (t - B) ** j * (t - C) ** k) / np.sqrt(p) * np.exp(-a * b / p * (A - B) ** 2)
        tab = r1.table1d([a], A, [b], B, i, j, C, k)[i, j, k, 0, 0]
        sc = r1.int1d(r1.FloatCtx, a, A, b, B, i, j, C, k)
        scale = abs(quad) + 1e-300
        worst = max(worst, abs(tab - quad) / scale, abs(sc - quad) / scale)
    _ok("R1 table/scalar vs Gauss-Hermite quadrature (200 random)", worst, 1e-10, results)
    # derivative: <a| d^n |b> vs quadrature of the explicit derivative via finite differences of mp
    import mpmath as mp

    mp.mp.dps = 40
    worst = 0.0
    for _ in range(40):
        a, b = np.exp(rng.uniform(np.log(0.1), np.log(10), 2))
        A, B = rng.uniform(-1.5, 1.5, 2)
        i, j, n = rng.randint(0, 5), rng.randint(0, 5), rng.randint(1, 4)
        f = lambda t: (t - A) ** i * mp.exp(-a * (t - A) ** 2) * mp.diff(  # noqa: E731
            lambda u: (u - B) ** j * mp.exp(-b * (u - B) ** 2), t, n)
        quad = mp.quad(f, [-mp.inf, min(A, B), max(A, B), mp.inf])
        tab = r1.table1d([a], A, [b], B, i, j + n)
        d = r1.deriv_table(tab, np.array([b]), j, n)[i, j, 0, 0]
        worst = max(worst, abs(float(quad) - d) / (abs(float(quad)) + 1e-12))
    _ok("R1 derivative tables vs mpmath quad of mp.diff (40 random)", worst, 1e-9, results)


def r4_checks(results):
    from vf.ref import r4

    worst_o = worst_h = 0.0
    for l in range(0, 9):
        T = r4.c2s_matrix(l)
        S = r4.cart_overlap_same_shell(r4.default_cart(l))
        worst_o = max(worst_o, np.abs(T @ S @ T.T - np.eye(2 * l + 1)).max())
        for m in range(l + 1):
            for poly in r4.harmonic_poly(l, m):
                lap = {}
                for (a, b, c), v in poly.items():
                    for ax, e in enumerate((a, b, c)):
                        if e >= 2:
                            key = [a, b, c]
                            key[ax] -= 2
                            lap[tuple(key)] = lap.get(tuple(key), 0) + v * e * (e - 1)
                worst_h = max(worst_h, max([abs(float(x)) for x in lap.values()] or [0.0]))
    _ok("R4 orthonormality l<=8", worst_o, 1e-12, results)
    _ok("R4 exact harmonicity l<=8", worst_h, 0.0, results)
    # d shell textbook values
    T2 = r4.c2s_matrix(2)  # labels s2 s1 c0 c1 c2, cart xx xy xz yy yz zz
    want_c0 = np.array([-0.5, 0, 0, -0.5, 0, 1.0])
    _ok("R4 d(c0) = zz - (xx+yy)/2", np.abs(T2[2] - want_c0).max(), 1e-14, results)
    want_c2 = np.array([np.sqrt(3) / 2, 0, 0, -np.sqrt(3) / 2, 0, 0])
    _ok("R4 d(c2) = sqrt(3)/2 (xx-yy)", np.abs(T2[4] - want_c2).max(), 1e-14, results)


def horton_anchor(results):
    """R1-R4 (+R2 when present) against arrays computed by HORTON, shipped in /repo/tests."""
    from vf.core import REPO

    tests = os.path.join(REPO, "tests")
    need = ["data_anorcc.nwchem", "data_horton_hhe_cart_overlap.npy", "data_horton_hhe_cart_kinetic_energy_integral.npy"]
    if not all(os.path.exists(os.path.join(tests, f)) for f in need):
        print("  [skipped] HORTON anchor: reference files not present")
        return
    from vf.ref import r3
    from vf.ref.r7 import parse_nwchem_reference

    bd = parse_nwchem_reference(open(os.path.join(tests, "data_anorcc.nwchem")).read())
    shells = []
    for atom, x in (("H", 0.0), ("He", 0.8 * 1.0 / 0.5291772083)):
        for l, exps, coeffs in bd[atom]:
            shells.append({"l": l, "coord": [x, 0.0, 0.0], "exps": exps, "coeffs": coeffs, "type": "cartesian"})
    R = r3.refs(shells)
    S = r3.two_index(R, R, r3.overlap_block)
    T = r3.two_index(R, R, r3.kinetic_block)
    Sh = np.load(os.path.join(tests, "data_horton_hhe_cart_overlap.npy"))
    Th = np.load(os.path.join(tests, "data_horton_hhe_cart_kinetic_energy_integral.npy"))
    if Sh.shape != S.shape:
        print(f"  [skipped] HORTON anchor: shape {Sh.shape} vs {S.shape}")
        return
    _ok("R1+R3 overlap vs HORTON (H-He ANO-RCC, 103 functions)", np.abs(S - Sh).max(), 1e-6, results)
    _ok("R1+R3 kinetic vs HORTON", np.abs(T - Th).max(), 1e-6, results)
    try:
        from vf.ref import r2

        V = r3.two_index(R, R, lambda a, b: r2.point_charge_block(
            a, b, np.array([[0, 0, 0.0], [0.8 / 0.5291772083, 0, 0]]), np.array([1.0, 2.0])).sum(axis=-1))
        Vh = np.load(os.path.join(tests, "data_horton_hhe_cart_nucattract.npy"))
        _ok("R2 nuclear attraction vs HORTON", np.abs(V - Vh).max(), 1e-6, results)
    except ImportError:
        pass
    # ERI: Be-C, STO-6G, 10 functions (HORTON, physicists' notation)
    f = os.path.join(tests, "data_horton_bec_cart_elec_repulsion.npy")
    g = os.path.join(tests, "data_sto6g.nwchem")
    if os.path.exists(f) and os.path.exists(g):
        from vf.ref import r2

        bd = parse_nwchem_reference(open(g).read())
        shells = []
        for atom, x in (("Be", 0.0), ("C", 1.0)):
            for l, exps, coeffs in bd[atom]:
                shells.append({"l": l, "coord": [x, 0.0, 0.0], "exps": exps, "coeffs": coeffs, "type": "cartesian"})
        G = np.transpose(r2.eri_full(r3.refs(shells)), (0, 2, 1, 3))
        Gh = np.load(f)
        if Gh.shape == G.shape:
            _ok("R2 electron repulsion vs HORTON (Be-C STO-6G)", np.abs(G - Gh).max(), 1e-6, results)


def main():
    results = []
    print("vf.selftest: validating reference oracles")
    r1_vs_quadrature(results)
    r4_checks(results)
    for name in ("vf.ref.r2", "vf.ref.r5"):
        try:
            mod = __import__(name, fromlist=["selftest"])
        except ImportError:
            continue
        if hasattr(mod, "selftest"):
            mod.selftest(results, _ok)
    try:
        horton_anchor(results)
    except ImportError as e:
        print("  [skipped] HORTON anchor:", e)
    if all(results):
        print(f"vf.selftest: {len(results)} anchors agree")
        return 0
    print("vf.selftest: ORACLE VALIDATION FAILED", file=sys.stderr)
    return 2


if __name__ == "__main__":
    sys.exit(main())
